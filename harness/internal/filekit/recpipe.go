package filekit

import (
	"encoding/binary"
	"fmt"

	"github.com/gauss-project/aurorafs/pkg/boson"
	"github.com/gauss-project/aurorafs/pkg/encryption"
	"github.com/gauss-project/aurorafs/pkg/file/pipeline"
	"github.com/gauss-project/aurorafs/pkg/file/pipeline/hashtrie"

	"verif/harness/internal/spec"
)

// TrieRecorder stands in for the "short pipeline" (hash + store) that the real
// hashtrie.NewHashTrieWriter calls for every intermediate chunk it wraps. Instead of
// hashing, it reads the chunk the writer assembled (span, child references), gives it a
// fake reference that encodes its position (level, index) and records it. Leaves are fed
// by the caller with fake references from LeafArgs. This lets the real writer be driven
// with 8192^2 + k leaf references in seconds. The comparison with spec.Tree is done by
// the caller through Mismatches / Seen.
type TrieRecorder struct {
	T       spec.Tree
	RefSize int // 32 plain, 64 encrypted (hash + key)

	seen       map[spec.Node]int
	mismatches []Mismatch
	Wrapped    int64
	MaxRefs    int64
}

// NewTrieRecorder for a file of n bytes.
func NewTrieRecorder(n int64, branching, refSize int) *TrieRecorder {
	return &TrieRecorder{T: spec.NewTree(n, branching), RefSize: refSize, seen: map[spec.Node]int{}}
}

func encodeNodeInto(r []byte, nd spec.Node) {
	r[0], r[1], r[2] = 'R', 'E', 'C'
	r[3] = byte(nd.Level)
	binary.BigEndian.PutUint64(r[4:], uint64(nd.Index))
	x := byte(nd.Index) ^ byte(nd.Level)
	for i := 12; i < len(r); i++ {
		r[i] = byte(i) ^ x
	}
}

func encodeNode(nd spec.Node, size int) []byte {
	r := make([]byte, size)
	encodeNodeInto(r, nd)
	return r
}

func decodeNode(r []byte) (spec.Node, bool) {
	if len(r) < 12 || r[0] != 'R' || r[1] != 'E' || r[2] != 'C' {
		return spec.Node{}, false
	}
	nd := spec.Node{Level: int(r[3]), Index: int64(binary.BigEndian.Uint64(r[4:]))}
	x := byte(nd.Index) ^ byte(nd.Level)
	for i := 12; i < len(r); i++ {
		if r[i] != byte(i)^x {
			return nd, false
		}
	}
	return nd, nd.Index >= 0
}

// LeafArgs is the write a leaf-level stage would send to the hash-trie writer for leaf i.
func (r *TrieRecorder) LeafArgs(i int64) *pipeline.PipeWriteArgs {
	nd := spec.Node{Level: 0, Index: i}
	ref := encodeNode(nd, r.RefSize)
	a := &pipeline.PipeWriteArgs{Span: spec.Span(uint64(r.T.Span(nd))), Ref: ref[:32]}
	if r.RefSize > 32 {
		a.Key = ref[32:]
	}
	return a
}

// Mismatch is one disagreement between the writer's output and the format; Kind is a
// stable class name (usable in finding keys), Msg has the numbers.
type Mismatch struct{ Kind, Msg string }

func (r *TrieRecorder) miss(kind, format string, a ...interface{}) {
	if len(r.mismatches) < 20 {
		r.mismatches = append(r.mismatches, Mismatch{kind, fmt.Sprintf(format, a...)})
	}
}

// Func is the pipeline.PipelineFunc to give to hashtrie.NewHashTrieWriter.
func (r *TrieRecorder) Func() pipeline.PipelineFunc {
	return func() pipeline.ChainWriter { return (*recWriter)(r) }
}

type recWriter TrieRecorder

func (w *recWriter) Sum() ([]byte, error) { return nil, fmt.Errorf("short pipeline: Sum not expected") }

// ChainWrite receives span||references of one intermediate chunk.
func (w *recWriter) ChainWrite(p *pipeline.PipeWriteArgs) error {
	r := (*TrieRecorder)(w)
	r.Wrapped++
	d := p.Data
	if len(d) < 8 || (len(d)-8)%r.RefSize != 0 || len(d) == 8 {
		r.miss("malformed-chunk", "intermediate chunk with %d data bytes (reference size %d)", len(d), r.RefSize)
		return fmt.Errorf("recorder: malformed chunk")
	}
	span := int64(binary.LittleEndian.Uint64(d[:8]))
	if string(p.Span) != string(d[:8]) {
		r.miss("span-argument", "Span argument %x differs from span prefix of the data %x", p.Span, d[:8])
	}
	n := int64((len(d) - 8) / r.RefSize)
	if n > r.MaxRefs {
		r.MaxRefs = n
	}
	kids := make([]spec.Node, n)
	for j := int64(0); j < n; j++ {
		c, ok := decodeNode(d[8+int(j)*r.RefSize : 8+int(j+1)*r.RefSize])
		if !ok {
			r.miss("foreign-reference", "reference %d of a chunk with span %d is not a reference handed to the writer", j, span)
			return fmt.Errorf("recorder: unknown reference")
		}
		kids[j] = c
	}
	// the position of this chunk follows from its first child (never a carried-up one)
	me := spec.Node{Level: kids[0].Level + 1, Index: kids[0].Index / r.T.B}
	r.seen[me]++
	if !r.T.IsChunk(me) {
		r.miss("chunk-not-in-format", "writer produced a chunk at level %d index %d (span %d, %d refs): the format has no chunk there", me.Level, me.Index, span, n)
	} else {
		if want := r.T.Span(me); want != span {
			r.miss("span", "chunk level %d index %d: span %d, format says %d", me.Level, me.Index, span, want)
		}
		want := r.T.Children(me)
		if int64(len(want)) != n {
			r.miss("reference-count", "chunk level %d index %d: %d references, format says %d", me.Level, me.Index, n, len(want))
		} else {
			for j := range want {
				if want[j] != kids[j] {
					r.miss("reference-order", "chunk level %d index %d: reference %d is node (%d,%d), format says (%d,%d)", me.Level, me.Index, j, kids[j].Level, kids[j].Index, want[j].Level, want[j].Index)
					break
				}
			}
		}
	}
	ref := encodeNode(me, r.RefSize)
	p.Ref = ref[:32]
	if r.RefSize > 32 {
		p.Key = ref[32:]
	}
	return nil
}

// Finish compares the root returned by the writer's Sum and the set of chunks produced
// with the format; it returns all mismatches found (nil = the writer built exactly the
// specified tree).
func (r *TrieRecorder) Finish(sum []byte) []Mismatch {
	root, ok := decodeNode(sum)
	if len(sum) != r.RefSize || !ok {
		r.miss("root-malformed", "Sum returned %d bytes that are no reference handed out (want %d)", len(sum), r.RefSize)
	} else if want := r.T.Root(); root != want {
		r.miss("root", "root is node (%d,%d), format says (%d,%d)", root.Level, root.Index, want.Level, want.Index)
	}
	// every intermediate chunk of the format exactly once
	got := map[spec.SpanRefs]int64{}
	for nd, c := range r.seen {
		if c != 1 {
			r.miss("chunk-repeated", "chunk level %d index %d produced %d times", nd.Level, nd.Index, c)
		}
		if r.T.IsChunk(nd) {
			got[spec.SpanRefs{Span: r.T.Span(nd), Refs: r.T.Fanout(nd)}] += int64(c)
		}
	}
	want := r.T.Intermediates()
	for k, c := range want {
		if got[k] != c {
			r.miss("chunk-missing", "%d chunks with span %d and %d references, format says %d", got[k], k.Span, k.Refs, c)
		}
	}
	for k, c := range got {
		if _, ok := want[k]; !ok {
			r.miss("chunk-unexpected", "%d unexpected chunks with span %d and %d references", c, k.Span, k.Refs)
		}
	}
	return r.mismatches
}

// Mismatches found so far.
func (r *TrieRecorder) Mismatches() []Mismatch { return r.mismatches }

// Intermediates seen.
func (r *TrieRecorder) Seen() int { return len(r.seen) }

// DriveTrie feeds the real hash-trie writer, configured as builder.NewPipelineBuilder
// configures it (plain: 8192 references of 32 bytes; encrypted: 4096 of 64), with the leaf
// references of an n-byte file and returns the recorder, the writer's Sum and its error.
func DriveTrie(n int64, enc bool) (*TrieRecorder, []byte, error) {
	branching, refSize := boson.Branches, boson.HashSize
	if enc {
		branching, refSize = boson.Branches/2, boson.HashSize+encryption.KeyLength
	}
	// the oracle side uses the constants of the format statement, not the repo's
	specB, specRef := spec.Branches, 32
	if enc {
		specB, specRef = spec.Branches/2, 64
	}
	rec := NewTrieRecorder(n, specB, specRef)
	w := hashtrie.NewHashTrieWriter(boson.ChunkSize, branching, refSize, rec.Func())
	leaves := rec.T.Count(0)
	// one reused argument record: the writer copies span, reference and key
	ref := make([]byte, specRef)
	span := make([]byte, 8)
	args := &pipeline.PipeWriteArgs{Span: span, Ref: ref[:32]}
	if specRef > 32 {
		args.Key = ref[32:]
	}
	for i := int64(0); i < leaves; i++ {
		nd := spec.Node{Level: 0, Index: i}
		encodeNodeInto(ref, nd)
		binary.LittleEndian.PutUint64(span, uint64(rec.T.Span(nd)))
		if err := w.ChainWrite(args); err != nil {
			return rec, nil, fmt.Errorf("leaf %d of %d: %w", i, leaves, err)
		}
	}
	sum, err := w.Sum()
	return rec, append([]byte(nil), sum...), err
}
