// Package filekit holds the workload engines shared by the file-pipeline checks (C01, C02,
// C07, C08): a copying in-memory store that records every Put, deterministic content and
// write segmentations, a virtual getter that synthesises the chunks of huge files on
// demand, and a recording short pipeline for the real hash-trie writer. Nothing in here
// decides a verdict: oracles live in internal/spec and in the property packages.
package filekit

import (
	"context"
	"sync"

	"github.com/gauss-project/aurorafs/pkg/boson"
	"github.com/gauss-project/aurorafs/pkg/storage"
)

// PutRecord is one observed Put of one chunk.
type PutRecord struct {
	Mode storage.ModePut
	Addr string // raw address bytes
	Len  int    // length of the chunk data (span included)
}

// Store is a storage.Storer over a map. Put COPIES the chunk data, as the real localstore
// does (it serialises into its batch synchronously): the chunk feeder reuses its buffer
// between chunks, and the properties are about content stored through the pipeline, not
// about stores that retain the caller's slice.
type Store struct {
	mu      sync.Mutex
	m       map[string][]byte
	puts    []PutRecord
	Record  bool // keep a PutRecord per chunk
	Discard bool // count only, keep nothing (for multi-GiB streams)
	nPut    int64
	nGet    int64
	nBytes  int64
	nDup    int64
}

var _ storage.Storer = (*Store)(nil)

// NewStore returns an empty recording store.
func NewStore() *Store { return &Store{m: map[string][]byte{}, Record: true} }

func (s *Store) Put(_ context.Context, mode storage.ModePut, chs ...boson.Chunk) ([]bool, error) {
	s.mu.Lock()
	defer s.mu.Unlock()
	exist := make([]bool, len(chs))
	for i, ch := range chs {
		k := string(ch.Address().Bytes())
		d := ch.Data()
		s.nPut++
		s.nBytes += int64(len(d))
		if s.Record {
			s.puts = append(s.puts, PutRecord{Mode: mode, Addr: k, Len: len(d)})
		}
		if s.Discard {
			continue
		}
		if _, ok := s.m[k]; ok {
			exist[i] = true
			s.nDup++
		}
		c := make([]byte, len(d))
		copy(c, d)
		s.m[k] = c
	}
	return exist, nil
}

func (s *Store) Get(_ context.Context, _ storage.ModeGet, addr boson.Address) (boson.Chunk, error) {
	s.mu.Lock()
	defer s.mu.Unlock()
	s.nGet++
	d, ok := s.m[string(addr.Bytes())]
	if !ok {
		return nil, storage.ErrNotFound
	}
	return boson.NewChunk(boson.NewAddress(append([]byte(nil), addr.Bytes()...)), d), nil
}

func (s *Store) GetMulti(ctx context.Context, mode storage.ModeGet, addrs ...boson.Address) ([]boson.Chunk, error) {
	out := make([]boson.Chunk, 0, len(addrs))
	for _, a := range addrs {
		c, err := s.Get(ctx, mode, a)
		if err != nil {
			return nil, err
		}
		out = append(out, c)
	}
	return out, nil
}

func (s *Store) Has(_ context.Context, _ storage.ModeHas, addr boson.Address) (bool, error) {
	s.mu.Lock()
	defer s.mu.Unlock()
	_, ok := s.m[string(addr.Bytes())]
	return ok, nil
}

func (s *Store) HasMulti(ctx context.Context, mode storage.ModeHas, addrs ...boson.Address) ([]bool, error) {
	out := make([]bool, len(addrs))
	for i, a := range addrs {
		out[i], _ = s.Has(ctx, mode, a)
	}
	return out, nil
}

func (s *Store) Set(_ context.Context, mode storage.ModeSet, addrs ...boson.Address) error {
	if mode != storage.ModeSetRemove {
		return nil
	}
	s.mu.Lock()
	defer s.mu.Unlock()
	for _, a := range addrs {
		delete(s.m, string(a.Bytes()))
	}
	return nil
}

func (s *Store) Close() error { return nil }

// Puts returns a copy of the Put log.
func (s *Store) Puts() []PutRecord {
	s.mu.Lock()
	defer s.mu.Unlock()
	return append([]PutRecord(nil), s.puts...)
}

// Counters: chunks put, gets served, bytes put, puts of an address already present.
func (s *Store) Counters() (puts, gets, bytes, dups int64) {
	s.mu.Lock()
	defer s.mu.Unlock()
	return s.nPut, s.nGet, s.nBytes, s.nDup
}

// Len is the number of distinct chunks held.
func (s *Store) Len() int {
	s.mu.Lock()
	defer s.mu.Unlock()
	return len(s.m)
}

// Raw returns the stored data of an address (not a copy; do not modify).
func (s *Store) Raw(addr []byte) ([]byte, bool) {
	s.mu.Lock()
	defer s.mu.Unlock()
	d, ok := s.m[string(addr)]
	return d, ok
}
