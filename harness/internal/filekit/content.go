package filekit

import (
	"context"
	"encoding/binary"
	"fmt"
	"io"
	"math/rand"

	"github.com/gauss-project/aurorafs/pkg/file"
	"github.com/gauss-project/aurorafs/pkg/file/pipeline/builder"
	"github.com/gauss-project/aurorafs/pkg/storage"
)

// CS is the leaf size of the format.
const CS = 262144

func mix(x uint64) uint64 {
	x += 0x9e3779b97f4a7c15
	x = (x ^ (x >> 30)) * 0xbf58476d1ce4e5b9
	x = (x ^ (x >> 27)) * 0x94d049bb133111eb
	return x ^ (x >> 31)
}

// Fill writes the bytes of the pseudo-random stream `seed` at global offsets
// off..off+len(p) into p. Byte at offset o depends on (seed, o) only.
func Fill(p []byte, seed uint64, off int64) {
	i := 0
	for i < len(p) {
		o := off + int64(i)
		w := mix(seed ^ mix(uint64(o>>3)))
		var b [8]byte
		binary.LittleEndian.PutUint64(b[:], w)
		i += copy(p[i:], b[o&7:])
	}
}

// Content kinds.
const (
	KindPRF    = "prf"    // no two chunks alike
	KindZeros  = "zeros"  // all bytes zero: every full leaf has the same address
	KindRepeat = "repeat" // period of one chunk: identical full leaves, distinct tail
)

// MakeContent builds n bytes of the given kind.
func MakeContent(kind string, n int, seed uint64) []byte {
	c := make([]byte, n)
	switch kind {
	case KindZeros:
	case KindRepeat:
		m := n
		if m > CS {
			m = CS
		}
		Fill(c[:m], seed, 0)
		for off := CS; off < n; off += CS {
			copy(c[off:], c[:CS])
		}
	default:
		Fill(c, seed, 0)
	}
	return c
}

// Segmentations of the writes.
const (
	SegOne       = "one"       // a single Write
	SegRandom    = "random"    // random lengths 0..2.5 chunks
	SegSmall     = "small"     // random lengths 0..300 (short contents) incl. empty writes
	SegByte      = "byte"      // 1-byte writes (short contents)
	SegAligned   = "aligned"   // chunk-sized writes
	SegMiB       = "mib"       // 1 MiB writes
	SegAround    = "around"    // lengths CS-1, CS+1, CS, 1 in random order
	SegFeed      = "feed"      // builder.FeedPipeline, reader returns short reads
	SegFeedEOF   = "feed-eof"  // same, last read returns its bytes together with io.EOF
	SegChunkPipe = "chunkpipe" // random writes into file.ChunkPipe, its read side fed to FeedPipeline
)

// Cuts returns write lengths summing to n.
func Cuts(seg string, n int, rng *rand.Rand) []int {
	var cuts []int
	left := n
	add := func(l int) {
		if l > left {
			l = left
		}
		cuts = append(cuts, l)
		left -= l
	}
	switch seg {
	case SegOne:
		add(n)
	case SegByte:
		for left > 0 {
			add(1)
		}
	case SegSmall:
		for left > 0 {
			add(rng.Intn(300))
		}
	case SegAligned:
		for left > 0 {
			add(CS)
		}
	case SegMiB:
		for left > 0 {
			add(1 << 20)
		}
	case SegAround:
		opts := []int{CS - 1, CS + 1, CS, 1, 2*CS - 1, 2*CS + 1, CS / 2}
		for left > 0 {
			add(opts[rng.Intn(len(opts))])
		}
	default: // random, feed, feed-eof, chunkpipe
		for left > 0 {
			switch rng.Intn(6) {
			case 0:
				add(rng.Intn(8))
			case 1:
				add(rng.Intn(5000))
			case 2:
				add(CS - 2 + rng.Intn(5))
			default:
				add(rng.Intn(5 * CS / 2))
			}
		}
	}
	if len(cuts) == 0 {
		cuts = []int{0}
	}
	return cuts
}

// cutReader returns the content in reads of the given lengths (never more than asked).
type cutReader struct {
	c       []byte
	cuts    []int
	withEOF bool
	reads   int
	// EmptyReads counts the (0, nil) reads handed out
	EmptyReads int
}

func (r *cutReader) Read(p []byte) (int, error) {
	r.reads++
	if len(r.c) == 0 {
		return 0, io.EOF
	}
	if len(r.cuts) > 0 && r.cuts[0] == 0 {
		// an empty piece: a read of zero bytes without error in the middle of the stream
		// (allowed by io.Reader; the caller has to read on)
		r.cuts = r.cuts[1:]
		r.EmptyReads++
		return 0, nil
	}
	l := len(r.c)
	if len(r.cuts) > 0 {
		l = r.cuts[0]
	}
	if l > len(p) {
		l = len(p)
	}
	if l > len(r.c) {
		l = len(r.c)
	}
	copy(p, r.c[:l])
	r.c = r.c[l:]
	if len(r.cuts) > 0 {
		r.cuts[0] -= l
	}
	if r.withEOF && len(r.c) == 0 {
		return l, io.EOF
	}
	return l, nil
}

// UploadResult is what an upload through the real pipeline returned.
type UploadResult struct {
	Ref    []byte // copy of the returned reference
	Writes int    // Write calls (or reader Read calls for the feed variants)
	// ShortWrite is set when a Write returned n != len(p) without error (first occurrence).
	ShortWrite string
	Err        error
}

// Upload sends content through builder.NewPipelineBuilder with the given segmentation.
// The buffer handed to Write is a scratch buffer that is overwritten after every call, as
// FeedPipeline does with its read buffer.
func Upload(ctx context.Context, st storage.Putter, mode storage.ModePut, content []byte, seg string, encrypt bool, rng *rand.Rand) (res UploadResult) {
	cuts := Cuts(seg, len(content), rng)
	p := builder.NewPipelineBuilder(ctx, st, mode, encrypt)
	switch seg {
	case SegFeed, SegFeedEOF:
		r := &cutReader{c: content, cuts: cuts, withEOF: seg == SegFeedEOF}
		addr, err := builder.FeedPipeline(ctx, p, r)
		res.Writes = r.reads
		res.Err = err
		res.Ref = append([]byte(nil), addr.Bytes()...)
		return
	case SegChunkPipe:
		cp := file.NewChunkPipe()
		errc := make(chan error, 1)
		go func() {
			scratch := make([]byte, 0, 3*CS)
			off := 0
			for _, l := range cuts {
				b := append(scratch[:0], content[off:off+l]...)
				n, err := cp.Write(b)
				if err == nil && n != l {
					err = fmt.Errorf("chunk pipe short write %d of %d", n, l)
				}
				if err != nil {
					cp.Close()
					errc <- err
					return
				}
				for i := range b {
					b[i] = 0xEE
				}
				off += l
			}
			errc <- cp.Close()
		}()
		addr, err := builder.FeedPipeline(ctx, p, cp)
		if err != nil {
			io.Copy(io.Discard, cp) // let the writer goroutine finish
		}
		if werr := <-errc; err == nil {
			err = werr
		}
		res.Writes = len(cuts)
		res.Err = err
		res.Ref = append([]byte(nil), addr.Bytes()...)
		return
	}
	scratch := make([]byte, 0, 1024)
	off := 0
	for i, l := range cuts {
		if cap(scratch) < l {
			scratch = make([]byte, 0, l)
		}
		b := append(scratch[:0], content[off:off+l]...)
		n, err := p.Write(b)
		res.Writes++
		if err != nil {
			res.Err = fmt.Errorf("write %d (len %d at %d): %w", i, l, off, err)
			return
		}
		if n != l && res.ShortWrite == "" {
			res.ShortWrite = fmt.Sprintf("write %d of %d bytes at offset %d returned n=%d", i, l, off, n)
		}
		for j := range b {
			b[j] = 0xEE
		}
		off += l
	}
	sum, err := p.Sum()
	res.Err = err
	res.Ref = append([]byte(nil), sum...)
	return
}
