package spec

import "math/rand"

// AddrAt returns an address of len(base) bytes that shares exactly po leading bits with
// base (the bit at position po differs), the remaining bits random. po must be smaller
// than 8*len(base).
func AddrAt(rng *rand.Rand, base []byte, po int) []byte {
	a := make([]byte, len(base))
	rng.Read(a)
	full := po / 8
	copy(a[:full], base[:full])
	bit := uint(po % 8)
	// keep the first `bit` bits of byte `full`, flip bit `bit`, leave the rest random
	keep := byte(0xff) << (8 - bit) // bit==0 -> 0x00
	flip := byte(0x80) >> bit
	a[full] = base[full]&keep | (^base[full])&flip | a[full]&^(keep|flip)
	return a
}

// Bin is the bin of address a in a proximity-indexed set over base with maxBins bins:
// the proximity order (leading equal bits, capped at maxPO) capped at the last bin.
func Bin(base, a []byte, maxPO, maxBins int) int {
	b := Prox(base, a, maxPO)
	if b > maxBins-1 {
		b = maxBins - 1
	}
	return b
}

// PSet is the reference model of a proximity-indexed address set: a plain map from
// address to bin.
type PSet struct {
	Base    []byte
	MaxPO   int
	MaxBins int
	M       map[string]int // address bytes -> bin
}

// NewPSet makes an empty model.
func NewPSet(base []byte, maxPO, maxBins int) *PSet {
	return &PSet{Base: base, MaxPO: maxPO, MaxBins: maxBins, M: map[string]int{}}
}

// Add inserts the addresses (set semantics).
func (p *PSet) Add(addrs ...[]byte) {
	for _, a := range addrs {
		p.M[string(a)] = Bin(p.Base, a, p.MaxPO, p.MaxBins)
	}
}

// Remove deletes an address.
func (p *PSet) Remove(a []byte) { delete(p.M, string(a)) }

// Has reports membership.
func (p *PSet) Has(a []byte) bool { _, ok := p.M[string(a)]; return ok }

// BinSizes returns the number of members per bin.
func (p *PSet) BinSizes() []int {
	s := make([]int, p.MaxBins)
	for _, b := range p.M {
		s[b]++
	}
	return s
}

// ShallowestEmpty returns the lowest empty bin, or none=true if every bin has a member.
func (p *PSet) ShallowestEmpty() (bin int, none bool) {
	for i, n := range p.BinSizes() {
		if n == 0 {
			return i, false
		}
	}
	return 0, true
}
