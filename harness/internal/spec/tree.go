package spec

// The Aurora file tree, written from the format statement (C01, C02, C08, C09):
//
//   * the content is cut into leaves of ChunkSize bytes (the last one may be shorter, an
//     empty content has one empty leaf); a leaf's reference is BMT(span = its length, bytes);
//   * references are grouped left to right, at most `branching` per group (8192 plain,
//     4096 encrypted); a group of two or more becomes an intermediate chunk whose payload is
//     the concatenated references and whose span is the content length below it; a group
//     of exactly one reference (only the last group can be one) is not wrapped: the lone
//     reference is carried up unchanged;
//   * this repeats until one reference is left: the root.
//
// Two independent renderings are given: TreeHash works bottom-up on real bytes, Tree is
// arithmetic only (spans and child lists per node) and therefore also describes files far
// too large to materialise. tree_test.go checks them against each other on small
// parameters.

// Ref is a reference with the length of content below it.
type Ref struct {
	Hash []byte
	Span int64
}

// LeafRef is the reference of one leaf.
func LeafRef(piece []byte, segments int) Ref {
	return Ref{Hash: BMTSegments(Span(uint64(len(piece))), piece, segments), Span: int64(len(piece))}
}

// ReduceRefs folds the leaf references into the root reference.
func ReduceRefs(refs []Ref, branching, segments int) Ref {
	if len(refs) == 0 {
		panic("spec: no leaves")
	}
	for len(refs) > 1 {
		var next []Ref
		for i := 0; i < len(refs); i += branching {
			j := i + branching
			if j > len(refs) {
				j = len(refs)
			}
			g := refs[i:j]
			if len(g) == 1 {
				next = append(next, g[0]) // lone reference: carried up unchanged
				continue
			}
			var payload []byte
			var span int64
			for _, r := range g {
				payload = append(payload, r.Hash...)
				span += r.Span
			}
			next = append(next, Ref{Hash: BMTSegments(Span(uint64(span)), payload, segments), Span: span})
		}
		refs = next
	}
	return refs[0]
}

// TreeHashParams is the tree hash for a format with chunks of chunkSize bytes
// (chunkSize/32 a power of two >= 2) and the given branching.
func TreeHashParams(content []byte, chunkSize, branching int) []byte {
	segments := chunkSize / SegmentSize
	var refs []Ref
	for off := 0; off < len(content) || off == 0; off += chunkSize {
		end := off + chunkSize
		if end > len(content) {
			end = len(content)
		}
		refs = append(refs, LeafRef(content[off:end], segments))
	}
	return ReduceRefs(refs, branching, segments).Hash
}

// TreeHash is the reference of unencrypted content in the Aurora format.
func TreeHash(content []byte) []byte { return TreeHashParams(content, ChunkSize, Branches) }

// ---------------------------------------------------------------------------------------

// Node names a position of the balanced tree: level 0 are leaves, node (k, i) covers the
// bytes [i*CS*B^k, (i+1)*CS*B^k) cut at the file length.
type Node struct {
	Level int
	Index int64
}

// Tree describes the shape of the tree of an N-byte file. Arithmetic only.
type Tree struct {
	N  int64 // content length, 0 <= N <= MaxTreeLen
	CS int64 // leaf size
	B  int64 // references per intermediate chunk
}

// MaxTreeLen bounds N so that no intermediate value overflows int64.
const MaxTreeLen = int64(1) << 61

const covSat = int64(1) << 61

// NewTree is the shape of an n-byte file with ChunkSize leaves.
func NewTree(n int64, branching int) Tree {
	if n < 0 || n > MaxTreeLen {
		panic("spec: tree length out of range")
	}
	return Tree{N: n, CS: ChunkSize, B: int64(branching)}
}

// Cover is the number of bytes below a full node of the level, saturated at 2^61 (>= N).
func (t Tree) Cover(level int) int64 {
	c := t.CS
	for i := 0; i < level; i++ {
		if c >= covSat/t.B {
			return covSat
		}
		c *= t.B
	}
	return c
}

// Count is the number of nodes of the balanced tree at the level.
func (t Tree) Count(level int) int64 {
	if t.N == 0 {
		return 1
	}
	c := t.Cover(level)
	return (t.N + c - 1) / c
}

// Depth is the level at which a single node covers the file.
func (t Tree) Depth() int {
	k := 0
	for t.Count(k) > 1 {
		k++
	}
	return k
}

// Offset of the first byte below the node.
func (t Tree) Offset(nd Node) int64 { return nd.Index * t.Cover(nd.Level) }

// Span is the content length below the node.
func (t Tree) Span(nd Node) int64 {
	c := t.Cover(nd.Level)
	off := nd.Index * c
	if rest := t.N - off; rest < c {
		return rest
	}
	return c
}

// Fanout is the number of level-1 positions below the node (level >= 1).
func (t Tree) Fanout(nd Node) int64 {
	below := t.Count(nd.Level - 1)
	first := nd.Index * t.B
	if rest := below - first; rest < t.B {
		return rest
	}
	return t.B
}

// Resolve follows lone references downwards: a position with a single child is not a
// chunk, it *is* that child.
func (t Tree) Resolve(nd Node) Node {
	for nd.Level > 0 && t.Fanout(nd) == 1 {
		nd = Node{nd.Level - 1, nd.Index * t.B}
	}
	return nd
}

// Root is the node the file reference points to.
func (t Tree) Root() Node { return t.Resolve(Node{t.Depth(), 0}) }

// Child j (0 <= j < Fanout) of an intermediate chunk.
func (t Tree) Child(nd Node, j int64) Node {
	return t.Resolve(Node{nd.Level - 1, nd.Index*t.B + j})
}

// Children of an intermediate chunk, in payload order.
func (t Tree) Children(nd Node) []Node {
	n := t.Fanout(nd)
	out := make([]Node, n)
	for j := int64(0); j < n; j++ {
		out[j] = t.Child(nd, j)
	}
	return out
}

// IsChunk reports whether the position exists as a chunk of the file.
func (t Tree) IsChunk(nd Node) bool {
	if nd.Level < 0 || nd.Index < 0 || nd.Index >= t.Count(nd.Level) {
		return false
	}
	return nd.Level == 0 || t.Fanout(nd) >= 2
}

// SpanRefs is (span, number of references) of an intermediate chunk.
type SpanRefs struct{ Span, Refs int64 }

// Intermediates is the multiset of all intermediate chunks of the file: how many chunks
// have a given (span, reference count). Closed form per level: all nodes but the last are
// full; the last holds the rest and is no chunk when the rest is a single reference.
func (t Tree) Intermediates() map[SpanRefs]int64 {
	m := map[SpanRefs]int64{}
	for k := 1; k <= t.Depth(); k++ {
		cnt := t.Count(k)
		if cnt > 1 {
			m[SpanRefs{t.Cover(k), t.B}] += cnt - 1
		}
		last := Node{k, cnt - 1}
		if f := t.Fanout(last); f >= 2 {
			m[SpanRefs{t.Span(last), f}]++
		}
	}
	return m
}

// ChunkCount is the number of chunks (leaves and intermediates) of the file.
func (t Tree) ChunkCount() (leaves, intermediates int64) {
	leaves = t.Count(0)
	for _, c := range t.Intermediates() {
		intermediates += c
	}
	return
}
