package spec

import (
	"errors"
	"fmt"

	gethcrypto "github.com/ethereum/go-ethereum/crypto"
)

// Single-owner chunk reference, written from the statement of C05. Owner recovery goes
// through go-ethereum's crypto.Ecrecover (libsecp256k1 via cgo), not through btcec which
// the code under test uses.
//
// Serialised form: id(32) || signature(65 = r(32) || s(32) || v(1)) || wrapped payload
// (span(8) || data(0..ChunkSize)). The signature is an Ethereum "signed message" (EIP-191
// type 0x45) signature of keccak256(id || address of the wrapped content-addressed chunk);
// the owner is the Ethereum address of the recovered key; the chunk address is
// keccak256(id || owner).

const (
	SOCIdSize  = 32
	SOCSigSize = 65
	SOCMinSize = SOCIdSize + SOCSigSize + SpanSize
)

// EthSignedMessageHash is the digest that is actually signed for data.
func EthSignedMessageHash(data []byte) []byte {
	return Keccak256([]byte(fmt.Sprintf("\x19Ethereum Signed Message:\n%d", len(data))), data)
}

// SigHeader decodes the v byte of the compact signature encoding: v = 27 + recovery id
// (0..3) + 4 if the "compressed public key" flag is set. The flag takes no part in
// recovery, so v and v+4 encode the same signature value (sig-encoding alias).
func SigHeader(v byte) (recid byte, compressedFlag bool, ok bool) {
	if v < 27 || v > 34 {
		return 0, false, false
	}
	h := v - 27
	return h & 3, h&4 != 0, true
}

// SameSignatureValue reports whether two 65-byte encodings denote the same (r, s,
// recovery id), i.e. differ at most in the compressed-key flag of v.
func SameSignatureValue(a, b []byte) bool {
	if len(a) != SOCSigSize || len(b) != SOCSigSize || string(a[:64]) != string(b[:64]) {
		return false
	}
	ra, _, oka := SigHeader(a[64])
	rb, _, okb := SigHeader(b[64])
	return oka && okb && ra == rb
}

// RecoverEthAddress returns the 20-byte Ethereum address of the key that produced sig
// (65 bytes) as an Ethereum signed message over data.
func RecoverEthAddress(sig, data []byte) ([]byte, error) {
	if len(sig) != SOCSigSize {
		return nil, errors.New("signature length")
	}
	recid, _, ok := SigHeader(sig[64])
	if !ok {
		return nil, errors.New("signature header byte out of range")
	}
	rs := make([]byte, 65)
	copy(rs, sig[:64])
	rs[64] = recid
	pub, err := gethcrypto.Ecrecover(EthSignedMessageHash(data), rs)
	if err != nil {
		return nil, err
	}
	if len(pub) != 65 || pub[0] != 4 {
		return nil, errors.New("unexpected public key encoding")
	}
	return Keccak256(pub[1:])[12:], nil
}

// EthAddressOfPub is the Ethereum address of an uncompressed public key given as X||Y
// (64 bytes).
func EthAddressOfPub(xy []byte) []byte { return Keccak256(xy)[12:] }

// SOCAddress is keccak256(id || owner).
func SOCAddress(id, owner []byte) []byte { return Keccak256(id, owner) }

// SOCParts is a parsed single-owner chunk.
type SOCParts struct {
	ID, Sig, Wrapped []byte
	WrappedAddr      []byte // BMT hash of the wrapped payload
	Owner            []byte // recovered
}

// ParseSOC splits and recovers; an error means "not a single-owner chunk".
func ParseSOC(data []byte) (*SOCParts, error) {
	if len(data) < SOCMinSize {
		return nil, errors.New("shorter than id+signature+span")
	}
	p := &SOCParts{ID: data[:SOCIdSize], Sig: data[SOCIdSize : SOCIdSize+SOCSigSize], Wrapped: data[SOCIdSize+SOCSigSize:]}
	if len(p.Wrapped) > ChunkSize+SpanSize {
		return nil, errors.New("wrapped payload too long")
	}
	p.WrappedAddr = BMTFast(p.Wrapped[:SpanSize], p.Wrapped[SpanSize:], Branches)
	owner, err := RecoverEthAddress(p.Sig, Keccak256(p.ID, p.WrappedAddr))
	if err != nil {
		return nil, err
	}
	p.Owner = owner
	return p, nil
}

// ValidSOC: data parses as a single-owner chunk whose signature over
// keccak256(id || wrapped address) recovers the owner that addr commits to.
func ValidSOC(addr, data []byte) bool {
	p, err := ParseSOC(data)
	if err != nil {
		return false
	}
	return string(SOCAddress(p.ID, p.Owner)) == string(addr)
}
