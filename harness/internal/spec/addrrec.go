package spec

import (
	"encoding/binary"
	"errors"

	"github.com/ethereum/go-ethereum/crypto/secp256k1"
	"golang.org/x/crypto/sha3"
)

// Peer address record (overlay, underlay, signature), written from the statement of C34.
// Key recovery goes through go-ethereum's libsecp256k1 binding directly (package
// crypto/secp256k1 only builds with cgo, so there is no silent fallback to btcec, which
// the code under test uses).
//
// The signature is an Ethereum "signed message" (EIP-191 type 0x45) signature, encoded
// r(32) || s(32) || v(1) with v as described at SigHeader, over
//
//	"aurorafs-handshake-" || underlay bytes || overlay bytes || network id (8 bytes, big endian)
//
// and the overlay of a key is sha3-256(keccak256(X || Y)) of its uncompressed public key.

// AddrRecordSignData is the byte string that is signed for a record.
func AddrRecordSignData(underlay, overlay []byte, networkID uint64) []byte {
	d := append([]byte("aurorafs-handshake-"), underlay...)
	d = append(d, overlay...)
	var n [8]byte
	binary.BigEndian.PutUint64(n[:], networkID)
	return append(d, n[:]...)
}

// OverlayOfPub is the overlay address of an uncompressed public key given as X||Y (64 bytes).
func OverlayOfPub(xy []byte) []byte {
	h := sha3.Sum256(Keccak256(xy))
	return h[:]
}

// RecoverPubXY recovers X||Y of the key that produced sig (65 bytes, r||s||v) as an
// Ethereum signed message over data.
func RecoverPubXY(sig, data []byte) ([]byte, error) {
	if len(sig) != 65 {
		return nil, errors.New("signature length")
	}
	recid, _, ok := SigHeader(sig[64])
	if !ok {
		return nil, errors.New("signature header byte out of range")
	}
	rs := make([]byte, 65)
	copy(rs, sig[:64])
	rs[64] = recid
	pub, err := secp256k1.RecoverPubkey(EthSignedMessageHash(data), rs)
	if err != nil {
		return nil, err
	}
	if len(pub) != 65 || pub[0] != 4 {
		return nil, errors.New("unexpected public key encoding")
	}
	return pub[1:], nil
}

// AddrRecordValid: the signature over (underlay, overlay, networkID) was made by a key
// whose overlay is the claimed one.
func AddrRecordValid(underlay, overlay, sig []byte, networkID uint64) bool {
	xy, err := RecoverPubXY(sig, AddrRecordSignData(underlay, overlay, networkID))
	if err != nil {
		return false
	}
	return string(OverlayOfPub(xy)) == string(overlay)
}
