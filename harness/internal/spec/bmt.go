// Package spec holds independent reference implementations written from the property
// statements. Nothing here imports the packages under test.
package spec

import (
	"encoding/binary"

	"golang.org/x/crypto/sha3"
)

const (
	SegmentSize = 32
	ChunkSize   = 262144 // 256 KiB
	Branches    = 8192
	SpanSize    = 8
)

// Keccak256 of the concatenation of the arguments.
func Keccak256(parts ...[]byte) []byte {
	h := sha3.NewLegacyKeccak256()
	for _, p := range parts {
		h.Write(p)
	}
	return h.Sum(nil)
}

// merkle returns the binary Merkle root over data, which must be a power-of-two number
// (>= 2) of 32-byte segments.
func merkle(data []byte) []byte {
	if len(data) == 2*SegmentSize {
		return Keccak256(data)
	}
	half := len(data) / 2
	return Keccak256(merkle(data[:half]), merkle(data[half:]))
}

// BMTSegments is keccak256(span || root) where root is the binary Merkle root of data
// zero-padded to segments*32 bytes. segments must be a power of two >= 2.
func BMTSegments(span []byte, data []byte, segments int) []byte {
	buf := make([]byte, segments*SegmentSize)
	copy(buf, data)
	return Keccak256(span, merkle(buf))
}

// BMT is the chunk hash of the Aurora format: 8192 segments of 32 bytes.
func BMT(span []byte, data []byte) []byte { return BMTSegments(span, data, Branches) }

// Span encodes a length as the 8-byte little-endian span prefix.
func Span(n uint64) []byte {
	b := make([]byte, 8)
	binary.LittleEndian.PutUint64(b, n)
	return b
}

// ValidCAC: payload (span||data) between 8 and ChunkSize+8 bytes and addr its BMT hash.
func ValidCAC(addr, payload []byte) bool {
	if len(payload) < SpanSize || len(payload) > ChunkSize+SpanSize {
		return false
	}
	h := BMT(payload[:8], payload[8:])
	return string(h) == string(addr)
}
