package spec

import "math/big"

// LeadingEqualBits of two equal-length byte strings.
func LeadingEqualBits(a, b []byte) int {
	n := 0
	for i := range a {
		x := a[i] ^ b[i]
		if x == 0 {
			n += 8
			continue
		}
		for bit := 7; bit >= 0; bit-- {
			if x&(1<<uint(bit)) != 0 {
				return n
			}
			n++
		}
	}
	return n
}

// Prox is the proximity order capped at max.
func Prox(a, b []byte, max int) int {
	l := LeadingEqualBits(a, b)
	if l > max {
		return max
	}
	return l
}

// XorInt is the XOR distance as a big integer.
func XorInt(a, b []byte) *big.Int {
	c := make([]byte, len(a))
	for i := range a {
		c[i] = a[i] ^ b[i]
	}
	return new(big.Int).SetBytes(c)
}
