package spec

import (
	"bytes"
	"math/rand"
	"testing"
)

// topDown hashes the file by walking the arithmetic Tree from the root.
func topDown(t Tree, nd Node, content []byte) []byte {
	segments := int(t.CS) / SegmentSize
	span := t.Span(nd)
	if nd.Level == 0 {
		off := t.Offset(nd)
		return BMTSegments(Span(uint64(span)), content[off:off+span], segments)
	}
	var payload []byte
	for _, c := range t.Children(nd) {
		payload = append(payload, topDown(t, c, content)...)
	}
	return BMTSegments(Span(uint64(span)), payload, segments)
}

// The two renderings of the format (bottom-up on bytes, arithmetic top-down) agree on
// every length up to a 5-level tree of a small format (64-byte chunks, branching 2 and 4).
func TestTreeRenderingsAgree(t *testing.T) {
	rng := rand.New(rand.NewSource(1))
	for _, b := range []int{2, 4} {
		const cs = 64
		max := cs*b*b*b*b + 3*cs
		if b == 2 {
			max = cs*64 + 3*cs
		}
		content := make([]byte, max)
		rng.Read(content)
		for n := 0; n <= max; n++ {
			if n > 20*cs && n%cs > 2 && n%cs < cs-2 && n%7 != 0 {
				continue
			}
			tr := Tree{N: int64(n), CS: cs, B: int64(b)}
			want := TreeHashParams(content[:n], cs, b)
			got := topDown(tr, tr.Root(), content[:n])
			if !bytes.Equal(want, got) {
				t.Fatalf("b=%d n=%d: bottom-up and top-down hashes differ", b, n)
			}
			// Intermediates() closed form against enumeration
			enum := map[SpanRefs]int64{}
			var leaves int64
			for k := 0; k <= tr.Depth(); k++ {
				for i := int64(0); i < tr.Count(k); i++ {
					nd := Node{k, i}
					if !tr.IsChunk(nd) {
						continue
					}
					if k == 0 {
						leaves++
						continue
					}
					enum[SpanRefs{tr.Span(nd), tr.Fanout(nd)}]++
				}
			}
			cf := tr.Intermediates()
			if len(cf) != len(enum) {
				t.Fatalf("b=%d n=%d: intermediates %v vs %v", b, n, cf, enum)
			}
			for k, v := range enum {
				if cf[k] != v {
					t.Fatalf("b=%d n=%d: intermediates %v vs %v", b, n, cf, enum)
				}
			}
			if l, _ := tr.ChunkCount(); l != leaves {
				t.Fatalf("leaves %d vs %d", l, leaves)
			}
		}
	}
}

func TestTreeHuge(t *testing.T) {
	for _, b := range []int{Branches, Branches / 2} {
		for _, n := range []int64{MaxTreeLen, MaxTreeLen - 1, 1 << 60, 1<<60 + 1} {
			tr := NewTree(n, b)
			r := tr.Root()
			if tr.Span(r) != n {
				t.Fatalf("root span %d != %d", tr.Span(r), n)
			}
			var sum int64
			for _, c := range tr.Children(r) {
				sum += tr.Span(c)
			}
			if sum != n {
				t.Fatalf("children spans %d != %d", sum, n)
			}
		}
	}
}
