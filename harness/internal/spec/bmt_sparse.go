package spec

import (
	"hash"
	"sync"

	"golang.org/x/crypto/sha3"
)

// Cheaper evaluation of the same recursive definition as BMTSegments, for monitors that
// need 10^4..10^5 oracle values of the 8192-segment tree: a subtree that lies entirely
// behind the end of the data is all zero padding, and its root is taken from a table that
// is itself filled by the plain recursive merkle() over all-zero buffers (no shortcut
// there). Cost is proportional to the data length instead of the tree size. The checks
// that use it cross-check it against BMTSegments on sampled inputs.

var (
	zeroOnce  sync.Once
	zeroRoots map[int][]byte // segments (power of two >= 2) -> merkle root of segments*32 zero bytes
)

func zeroRoot(segments int) []byte {
	zeroOnce.Do(func() {
		zeroRoots = map[int][]byte{}
		for s := 2; s <= Branches; s *= 2 {
			zeroRoots[s] = merkle(make([]byte, s*SegmentSize))
		}
	})
	if r, ok := zeroRoots[segments]; ok {
		return r
	}
	return merkle(make([]byte, segments*SegmentSize))
}

// keccak2 is Keccak256(a, b) on a caller-owned hash state (one allocation per tree instead
// of one per node; the race detector makes allocation and hashing several times dearer).
func keccak2(h hash.Hash, a, b []byte) []byte {
	h.Reset()
	h.Write(a)
	h.Write(b)
	return h.Sum(nil)
}

// merkleSparse is merkle() of data zero-padded to segments*32 bytes; len(data) must not
// exceed segments*32 and segments must be a power of two >= 2.
func merkleSparse(h hash.Hash, data []byte, segments int) []byte {
	if len(data) == 0 {
		return zeroRoot(segments)
	}
	if segments == 2 {
		var buf [2 * SegmentSize]byte
		copy(buf[:], data)
		return keccak2(h, buf[:SegmentSize], buf[SegmentSize:])
	}
	half := segments / 2 * SegmentSize
	if len(data) <= half {
		return keccak2(h, merkleSparse(h, data, segments/2), zeroRoot(segments/2))
	}
	l := merkleSparse(h, data[:half], segments/2)
	r := merkleSparse(h, data[half:], segments/2)
	return keccak2(h, l, r)
}

// BMTRoot is the binary Merkle root of data zero-padded to segments*32 bytes (data longer
// than that is cut, as BMTSegments does through copy).
func BMTRoot(data []byte, segments int) []byte {
	if len(data) > segments*SegmentSize {
		data = data[:segments*SegmentSize]
	}
	return merkleSparse(sha3.NewLegacyKeccak256(), data, segments)
}

// BMTFast equals BMTSegments(span, data, segments).
func BMTFast(span, data []byte, segments int) []byte {
	return Keccak256(span, BMTRoot(data, segments))
}
