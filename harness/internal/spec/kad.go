package spec

import (
	"fmt"
	"sort"
)

// KadPeer is one connected peer of the topology model.
type KadPeer struct {
	Addr      []byte
	Bin       int  // proximity bin to the base
	Reachable bool // last reported reachability status is "public"
}

// KadState is what the neighbourhood depth may depend on.
type KadState struct {
	Peers  map[string]*KadPeer // connected peers by address
	Radius int
	Quick  int // quick-saturation number
	Bins   int // number of bins (32)
}

// BinCounts returns per bin: connected peers, reachable connected peers.
func (s *KadState) BinCounts() (all, reach []int) {
	all, reach = make([]int, s.Bins), make([]int, s.Bins)
	for _, p := range s.Peers {
		all[p.Bin]++
		if p.Reachable {
			reach[p.Bin]++
		}
	}
	return
}

// DepthFailure names one clause of the depth property that a reported depth breaks.
type DepthFailure struct {
	Clause string
	Msg    string
}

// CheckDepth evaluates the clauses of the property statement for a reported depth:
//   - never exceeds the radius
//   - zero when at most three peers are connected
//   - when positive, at least three reachable peers at or beyond it
//   - never exceeds the shallowest empty bin
//   - every shallower bin holds at least the quick-saturation number of reachable peers
func (s *KadState) CheckDepth(depth int) []DepthFailure {
	var f []DepthFailure
	all, reach := s.BinCounts()
	if depth > s.Radius {
		f = append(f, DepthFailure{"depth-exceeds-radius", fmt.Sprintf("depth %d > radius %d", depth, s.Radius)})
	}
	if len(s.Peers) <= 3 && depth != 0 {
		f = append(f, DepthFailure{"depth-nonzero-with-at-most-three-peers", fmt.Sprintf("depth %d with %d connected peers", depth, len(s.Peers))})
	}
	if depth > 0 {
		n := 0
		for b := depth; b < s.Bins; b++ {
			n += reach[b]
		}
		if n < 3 {
			f = append(f, DepthFailure{"depth-leaves-fewer-than-three-reachable-peers", fmt.Sprintf("depth %d but only %d reachable peers in bins >= %d", depth, n, depth)})
		}
	}
	for b := 0; b < s.Bins && b < depth; b++ {
		if all[b] == 0 {
			f = append(f, DepthFailure{"depth-exceeds-shallowest-empty-bin", fmt.Sprintf("depth %d but bin %d is empty", depth, b)})
			break
		}
	}
	for b := 0; b < s.Bins && b < depth; b++ {
		if all[b] == 0 {
			continue // reported by the previous clause
		}
		if reach[b] < s.Quick {
			cl := "shallower-bin-below-quick-saturation"
			if reach[b] == 0 {
				cl = "depth-above-bin-holding-only-unreachable-peers"
			}
			f = append(f, DepthFailure{cl, fmt.Sprintf("depth %d but bin %d holds %d reachable of %d connected peers (quick-saturation %d)", depth, b, reach[b], all[b], s.Quick)})
			break
		}
	}
	return f
}

// Describe renders the state compactly for witnesses: per non-empty bin "bin:reachable/all".
func (s *KadState) Describe() string {
	all, reach := s.BinCounts()
	out := ""
	for b := range all {
		if all[b] > 0 {
			out += fmt.Sprintf("%d:%d/%d ", b, reach[b], all[b])
		}
	}
	return fmt.Sprintf("bins(reachable/connected)=[%s] radius=%d quick=%d", out, s.Radius, s.Quick)
}

// ClosestOrder returns the eligible candidates sorted by XOR distance to target
// (nearest first). Candidates are distinct addresses of equal length.
func ClosestOrder(target []byte, cands [][]byte) [][]byte {
	out := append([][]byte(nil), cands...)
	sort.Slice(out, func(i, j int) bool {
		return XorInt(out[i], target).Cmp(XorInt(out[j], target)) < 0
	})
	return out
}
