// Package racemain lets a race-built check finish with exit status 0 when the only
// reason the testing package failed its tests is "race detected during execution of
// test". ./check collects race reports from the GORACE log files and judges them itself
// (race_violation_pkgs); a non-zero exit status would be turned into "harness failure"
// (inconclusive) and hide that distinction. Genuine harness failures (t.Fatal / t.Error)
// and panics keep their non-zero status.
package racemain

import (
	"os"
	"sync/atomic"
	"syscall"
	"testing"
)

var started, finished, failed int32

// Run wraps the body of a top-level test function. A body that does not run to its end
// (t.Fatal / t.FailNow unwind it with runtime.Goexit) marks the process as failed. The
// harness reports its own errors only through t.Fatal, never through t.Error.
// (t.Failed() cannot be used: since Go 1.22 it already includes the race verdict.)
func Run(t *testing.T, body func()) {
	atomic.AddInt32(&started, 1)
	normal := false
	defer func() {
		if !normal {
			atomic.StoreInt32(&failed, 1)
		}
		atomic.AddInt32(&finished, 1)
	}()
	body()
	normal = true
}

// Main is the body of TestMain.
func Main(m *testing.M) {
	code := m.Run()
	if code != 0 && atomic.LoadInt32(&failed) == 0 && atomic.LoadInt32(&started) == atomic.LoadInt32(&finished) && started > 0 {
		// os.Exit would run the race runtime's finaliser, which exits with status 66
		// whenever anything was reported; the reports are already in the log files.
		syscall.Exit(0)
	}
	os.Exit(code)
}
