package racemain

import (
	"fmt"
	"io/ioutil"
	"os"
	"path/filepath"
	"regexp"
	"sort"
	"strings"
)

// Report is one data-race report of this process, reduced to the two access stacks.
type Report struct {
	Key  string // e.g. "Credit[write]-vs-Reserve[read]" (top repository frame of each access, sorted)
	Pkgs []string
	Text string
}

const repoMod = "github.com/gauss-project/aurorafs/"

var (
	accessRe = regexp.MustCompile(`(?i)^(previous )?(atomic )?(read|write) at 0x[0-9a-f]+ by `)
	frameRe  = regexp.MustCompile(`^\s+(\S+?)\(`)
)

// Reports parses the race detector's log files of this very process (GORACE log_path,
// as ./check sets it). Without a log_path (reports on stderr) it returns nil.
func Reports() []Report {
	var lp string
	for _, f := range strings.Fields(os.Getenv("GORACE")) {
		if strings.HasPrefix(f, "log_path=") {
			lp = strings.TrimPrefix(f, "log_path=")
		}
	}
	if lp == "" {
		return nil
	}
	files, _ := filepath.Glob(fmt.Sprintf("%s.%d", lp, os.Getpid()))
	var out []Report
	for _, fn := range files {
		b, err := ioutil.ReadFile(fn)
		if err != nil {
			continue
		}
		for _, blk := range strings.Split(string(b), "WARNING: DATA RACE")[1:] {
			blk = strings.Split(blk, "==================")[0]
			var parts []string
			pk := map[string]bool{}
			lines := strings.Split(blk, "\n")
			for i := 0; i < len(lines) && len(parts) < 2; i++ {
				m := accessRe.FindStringSubmatch(strings.TrimSpace(lines[i]))
				if m == nil {
					continue
				}
				rw := strings.ToLower(m[3])
				fn := "?"
				for j := i + 1; j < len(lines) && strings.TrimSpace(lines[j]) != ""; j++ {
					fm := frameRe.FindStringSubmatch(lines[j])
					if fm == nil || !strings.HasPrefix(fm[1], repoMod) {
						continue
					}
					full := strings.TrimPrefix(fm[1], repoMod) // e.g. pkg/accounting.
					// the regexp stops at the first '(' which for methods is the receiver: take the whole call text
					call := strings.TrimSpace(lines[j])
					call = strings.TrimPrefix(call, repoMod)
					call = strings.TrimSuffix(call, "()")
					if k := strings.LastIndex(call, "."); k >= 0 && !strings.Contains(call[k:], "func") {
						fn = call[k+1:]
					} else {
						fn = call
					}
					if k := strings.Index(full, "."); k >= 0 {
						pk[full[:k]] = true
					}
					break
				}
				parts = append(parts, fmt.Sprintf("%s[%s]", fn, rw))
			}
			sort.Strings(parts)
			r := Report{Key: strings.Join(parts, "-vs-"), Text: "WARNING: DATA RACE" + blk}
			for p := range pk {
				r.Pkgs = append(r.Pkgs, p)
			}
			sort.Strings(r.Pkgs)
			if len(r.Text) > 5000 {
				r.Text = r.Text[:5000]
			}
			out = append(out, r)
		}
	}
	return out
}
