// Package rtsim wires several real routetab.Service instances (each with its own real
// kademlia and address book) into one in-process network. The only simulated part is the
// transport: a Streamer that hands streams to the destination node's real protocol
// handlers over in-memory pipes, can delay or lose streams by PRNG, refuses streams
// between nodes that are not linked, and shows every first message of a stream to an
// observer. Nothing here judges anything; monitors live in the property packages.
package rtsim

import (
	"context"
	"encoding/binary"
	"errors"
	"fmt"
	"io"
	"math/rand"
	"sync"
	"sync/atomic"
	"time"

	"github.com/gauss-project/aurorafs/pkg/addressbook"
	"github.com/gauss-project/aurorafs/pkg/aurora"
	"github.com/gauss-project/aurorafs/pkg/boson"
	"github.com/gauss-project/aurorafs/pkg/crypto"
	discmock "github.com/gauss-project/aurorafs/pkg/discovery/mock"
	"github.com/gauss-project/aurorafs/pkg/logging"
	"github.com/gauss-project/aurorafs/pkg/p2p"
	p2pmock "github.com/gauss-project/aurorafs/pkg/p2p/mock"
	"github.com/gauss-project/aurorafs/pkg/routetab"
	"github.com/gauss-project/aurorafs/pkg/routetab/pb"
	"github.com/gauss-project/aurorafs/pkg/shed"
	"github.com/gauss-project/aurorafs/pkg/shed/driver"
	"github.com/gauss-project/aurorafs/pkg/statestore/leveldb"
	"github.com/gauss-project/aurorafs/pkg/storage"
	"github.com/gauss-project/aurorafs/pkg/subscribe"
	"github.com/gauss-project/aurorafs/pkg/topology/kademlia"
	"github.com/gauss-project/aurorafs/pkg/topology/lightnode"
	ma "github.com/multiformats/go-multiaddr"
	"github.com/sirupsen/logrus"
	"verif/harness/internal/vdb"
)

// Names of the routetab streams whose first message is decoded for observers.
const (
	StreamRouteReq  = "onRouteReq"
	StreamRouteResp = "onRouteResp"
)

var quiet = logging.New(io.Discard, logrus.ErrorLevel)

// FullMode is the node mode every simulated node announces.
var FullMode = aurora.NewModel().SetMode(aurora.FullNode)

// ---- in-memory stream --------------------------------------------------------------------

var errReset = errors.New("rtsim: stream reset")

type half struct {
	mu      sync.Mutex
	cond    *sync.Cond
	buf     []byte
	closed  bool
	reset   bool
	discard bool
}

func newHalf() *half { h := &half{}; h.cond = sync.NewCond(&h.mu); return h }

func (h *half) write(p []byte) (int, error) {
	h.mu.Lock()
	defer h.mu.Unlock()
	if h.reset {
		return 0, errReset
	}
	if h.closed {
		return 0, io.ErrClosedPipe
	}
	if !h.discard {
		h.buf = append(h.buf, p...)
		h.cond.Broadcast()
	}
	return len(p), nil
}

func (h *half) read(p []byte) (int, error) {
	h.mu.Lock()
	defer h.mu.Unlock()
	for len(h.buf) == 0 && !h.closed && !h.reset {
		h.cond.Wait()
	}
	if h.reset {
		return 0, errReset
	}
	if len(h.buf) > 0 {
		n := copy(p, h.buf)
		h.buf = h.buf[n:]
		return n, nil
	}
	return 0, io.EOF
}

func (h *half) close() { h.mu.Lock(); h.closed = true; h.cond.Broadcast(); h.mu.Unlock() }
func (h *half) doReset() {
	h.mu.Lock()
	h.reset = true
	h.cond.Broadcast()
	h.mu.Unlock()
}

// Stream is one end of an in-memory bidirectional stream.
type Stream struct {
	in, out *half
	headers p2p.Headers
	tap     func([]byte)
}

func (s *Stream) Read(p []byte) (int, error) { return s.in.read(p) }
func (s *Stream) Write(p []byte) (int, error) {
	if s.tap != nil {
		s.tap(p)
	}
	return s.out.write(p)
}
func (s *Stream) Close() error                 { s.out.close(); return nil }
func (s *Stream) FullClose() error             { s.out.close(); return nil }
func (s *Stream) Reset() error                 { s.in.doReset(); s.out.doReset(); return nil }
func (s *Stream) Headers() p2p.Headers         { return s.headers }
func (s *Stream) ResponseHeaders() p2p.Headers { return nil }

// Pipe returns the two ends of a fresh stream.
func Pipe(h p2p.Headers) (a, b *Stream) {
	x, y := newHalf(), newHalf()
	return &Stream{in: y, out: x, headers: h}, &Stream{in: x, out: y, headers: h}
}

// ---- network -----------------------------------------------------------------------------

// Event is the first message written on a stream, as seen when the sender wrote it.
type Event struct {
	Seq      int64
	From, To int
	Stream   string
	Dropped  bool // the network will not deliver this stream
	Req      *pb.RouteReq
	Resp     *pb.RouteResp
	Relay    *pb.RouteRelayReq
}

// Node is one simulated node.
type Node struct {
	Idx      int
	Overlay  boson.Address
	Addr     *aurora.Address
	Signer   crypto.Signer
	Book     addressbook.Interface
	Kad      *kademlia.Kad
	Svc      *routetab.Service
	Streamer p2p.Streamer
	handlers map[string]p2p.HandlerFunc
}

// Identity is the key material and signed address record of a node. Creating one costs a
// signature, so callers may build a pool once and reuse it across networks.
type Identity struct {
	Signer  crypto.Signer
	Overlay boson.Address
	Addr    *aurora.Address
}

// NewIdentity derives a key from rng and signs an address record for network id.
func NewIdentity(rng *rand.Rand, port int, networkID uint64) (*Identity, error) {
	kb := make([]byte, 32)
	rng.Read(kb)
	kb[0] = kb[0]&0x7f | 1 // non-zero and below the group order
	key := crypto.Secp256k1PrivateKeyFromBytes(kb)
	signer := crypto.NewDefaultSigner(key)
	overlay, err := crypto.NewOverlayAddress(key.PublicKey, networkID)
	if err != nil {
		return nil, err
	}
	under, err := ma.NewMultiaddr(fmt.Sprintf("/ip4/127.0.0.1/tcp/%d", 20000+port))
	if err != nil {
		return nil, err
	}
	addr, err := aurora.NewAddress(signer, under, overlay, networkID)
	if err != nil {
		return nil, err
	}
	return &Identity{Signer: signer, Overlay: overlay, Addr: addr}, nil
}

// prefixStore gives every node its own key space inside one state store.
type prefixStore struct {
	inner  storage.StateStorer
	prefix string
}

func (p *prefixStore) Get(key string, i interface{}) error { return p.inner.Get(p.prefix+key, i) }
func (p *prefixStore) Put(key string, i interface{}) error { return p.inner.Put(p.prefix+key, i) }
func (p *prefixStore) Delete(key string) error             { return p.inner.Delete(p.prefix + key) }
func (p *prefixStore) Iterate(prefix string, f storage.StateIterFunc) error {
	return p.inner.Iterate(p.prefix+prefix, func(k, v []byte) (bool, error) { return f(k[len(p.prefix):], v) })
}
func (p *prefixStore) DB() driver.BatchDB { return p.inner.DB() }
func (p *prefixStore) Close() error       { return nil }

// Net is the simulated network.
type Net struct {
	Nodes     []*Node
	Adj       [][]bool
	NetworkID uint64

	byAddr map[string]int
	ctx    context.Context
	cancel context.CancelFunc
	store  storage.StateStorer // shared by all nodes, one key prefix per node
	mdb    *shed.DB            // kademlia metrics of all nodes

	mu       sync.Mutex
	rng      *rand.Rand
	dropP    float64
	maxDelay time.Duration

	seq          int64
	inflight     int64
	Streams      int64 // streams opened between linked nodes
	Dropped      int64
	NonNeighbour int64 // NewStream towards a node that is not linked to the caller
	Delivered    int64

	// Observe is called synchronously by the writer of the first message of each stream.
	Observe func(Event)
	// OnDeliver is called when a handler is about to run (delivery order).
	OnDeliver func(from, to int, stream string)
	// OnRelayDelivered is called at the target of a relayed connection.
	OnRelayDelivered func(target int, last, src p2p.Peer)
	// OnNonNeighbour is called when a node opens a stream to a node it is not linked to.
	OnNonNeighbour func(from int, to boson.Address, stream string)
	// RelayStream, when set, serves Streamer.NewRelayStream (used by FindUnderlay): it
	// returns the caller's end of a stream whose other end the test scripts.
	RelayStream func(from int, target boson.Address, protocol, version, stream string) (p2p.Stream, error)

	closers sync.WaitGroup
}

// Options of a network.
type Options struct {
	Nodes      int
	NetworkID  uint64
	Alpha      int32
	Identities []*Identity // optional: pre-built identities (len >= Nodes), signed for NetworkID
}

// New builds the nodes (keys and addresses from rng) without any link.
func New(rng *rand.Rand, o Options) (*Net, error) {
	vdb.Register()
	ctx, cancel := context.WithCancel(context.Background())
	n := &Net{NetworkID: o.NetworkID, byAddr: map[string]int{}, ctx: ctx, cancel: cancel,
		rng: rand.New(rand.NewSource(rng.Int63()))}
	var err error
	if n.store, err = leveldb.NewInMemoryStateStore(quiet); err != nil {
		return nil, err
	}
	if n.mdb, err = shed.NewDB("", vdb.Opts()); err != nil {
		return nil, err
	}
	n.Adj = make([][]bool, o.Nodes)
	for i := range n.Adj {
		n.Adj[i] = make([]bool, o.Nodes)
	}
	for i := 0; i < o.Nodes; i++ {
		nd, err := n.newNode(rng, i, o)
		if err != nil {
			n.Close()
			return nil, err
		}
		n.Nodes = append(n.Nodes, nd)
		n.byAddr[nd.Overlay.ByteString()] = i
	}
	return n, nil
}

// P2P is the p2p.Service given to a node: the repository mock plus the target side of a
// relayed connection (acknowledge, then echo four bytes).
type P2P struct {
	*p2pmock.Service
	net  *Net
	node int
}

func (p *P2P) CallHandlerWithConnChain(ctx context.Context, last, src p2p.Peer, stream p2p.Stream, protocolName, protocolVersion, streamName string) error {
	if _, err := stream.Write([]byte("ack")); err != nil {
		return err
	}
	if f := p.net.OnRelayDelivered; f != nil {
		f(p.node, last, src)
	}
	buf := make([]byte, 4)
	if _, err := io.ReadFull(stream, buf); err != nil {
		return err
	}
	_, err := stream.Write(buf)
	return err
}

func (n *Net) newNode(rng *rand.Rand, idx int, o Options) (*Node, error) {
	var id *Identity
	if idx < len(o.Identities) {
		id = o.Identities[idx]
	} else {
		var err error
		if id, err = NewIdentity(rng, idx, o.NetworkID); err != nil {
			return nil, err
		}
	}
	overlay := id.Overlay
	store := &prefixStore{inner: n.store, prefix: fmt.Sprintf("n%02d/", idx)}
	book := addressbook.New(store)
	p2ps := &P2P{Service: p2pmock.New(p2pmock.WithConnectFunc(func(context.Context, ma.Multiaddr) (*p2p.Peer, error) {
		return nil, errors.New("rtsim: no dial-outs")
	})), net: n, node: idx}
	kad, err := kademlia.New(overlay, book, discmock.NewDiscovery(), p2ps, nil, nil, nil, n.mdb, quiet, subscribe.NewSubPub(),
		kademlia.Options{BinMaxPeers: 10, NodeMode: FullMode})
	if err != nil {
		return nil, err
	}
	p2ps.SetPickyNotifier(kad)
	nd := &Node{Idx: idx, Overlay: overlay, Addr: id.Addr, Signer: id.Signer, Book: book, Kad: kad,
		handlers: map[string]p2p.HandlerFunc{}}
	nd.Streamer = &streamer{net: n, from: idx}
	nd.Svc = routetab.New(overlay, n.ctx, p2ps, nd.Streamer, book, o.NetworkID, lightnode.NewContainer(overlay), kad, store, quiet,
		routetab.Options{Alpha: o.Alpha})
	for _, sp := range nd.Svc.Protocol().StreamSpecs {
		nd.handlers[sp.Name] = sp.Handler
	}
	return nd, nil
}

// Handler returns the node's real handler of the named routetab stream.
func (nd *Node) Handler(stream string) p2p.HandlerFunc { return nd.handlers[stream] }

// Link connects two nodes in both directions (address book entry + kademlia connection).
func (n *Net) Link(i, j int) error {
	if i == j || n.Adj[i][j] {
		return nil
	}
	for _, p := range [][2]int{{i, j}, {j, i}} {
		a, b := n.Nodes[p[0]], n.Nodes[p[1]]
		if err := a.Book.Put(b.Overlay, *b.Addr); err != nil {
			return err
		}
		if err := a.Kad.Connected(n.ctx, p2p.Peer{Address: b.Overlay, Mode: FullMode}, true); err != nil {
			return err
		}
	}
	n.Adj[i][j], n.Adj[j][i] = true, true
	return nil
}

// SetFaults sets the probability that a route request/response stream is lost and the
// maximum random delay before a stream is handed to its handler.
func (n *Net) SetFaults(dropP float64, maxDelay time.Duration) {
	n.mu.Lock()
	n.dropP, n.maxDelay = dropP, maxDelay
	n.mu.Unlock()
}

// Index returns the node index of an overlay address.
func (n *Net) Index(a boson.Address) (int, bool) {
	i, ok := n.byAddr[a.ByteString()]
	return i, ok
}

// InFlight is the number of streams opened whose handler has not returned yet.
func (n *Net) InFlight() int64 { return atomic.LoadInt64(&n.inflight) }

// Context is cancelled by Close.
func (n *Net) Context() context.Context { return n.ctx }

// Close stops the services (their context is cancelled) and releases the databases. The
// kademlia instances are not closed: they were never started, Close would wait five
// seconds for the absent manage loop and then write metrics into the shared database.
func (n *Net) Close() {
	n.cancel()
	if n.mdb != nil {
		_ = n.mdb.Close()
	}
	if n.store != nil {
		_ = n.store.Close()
	}
}

// Wait is kept for callers that want to be sure nothing of the network runs any more.
func (n *Net) Wait() { n.closers.Wait() }

type streamer struct {
	net  *Net
	from int
}

func (s *streamer) NewStream(ctx context.Context, address boson.Address, h p2p.Headers, protocol, version, name string) (p2p.Stream, error) {
	n := s.net
	to, ok := n.byAddr[address.ByteString()]
	if !ok || !n.Adj[s.from][to] {
		atomic.AddInt64(&n.NonNeighbour, 1)
		if f := n.OnNonNeighbour; f != nil {
			f(s.from, address, name)
		}
		return nil, p2p.ErrPeerNotFound
	}
	if protocol != routetab.ProtocolName || version != routetab.ProtocolVersion {
		return nil, fmt.Errorf("rtsim: unknown protocol %s/%s", protocol, version)
	}
	handler := n.Nodes[to].handlers[name]
	if handler == nil {
		return nil, fmt.Errorf("rtsim: unknown stream %s", name)
	}
	oneShot := name == StreamRouteReq || name == StreamRouteResp
	n.mu.Lock()
	drop := oneShot && n.dropP > 0 && n.rng.Float64() < n.dropP
	var delay time.Duration
	if n.maxDelay > 0 && n.rng.Intn(2) == 0 {
		delay = time.Duration(n.rng.Int63n(int64(n.maxDelay)))
	}
	n.mu.Unlock()

	seq := atomic.AddInt64(&n.seq, 1)
	atomic.AddInt64(&n.Streams, 1)
	cli, srv := Pipe(h)
	cli.tap = n.newTap(Event{Seq: seq, From: s.from, To: to, Stream: name, Dropped: drop})
	if drop {
		atomic.AddInt64(&n.Dropped, 1)
		cli.out.mu.Lock()
		cli.out.discard = true
		cli.out.mu.Unlock()
		cli.in.close()
		return cli, nil
	}
	atomic.AddInt64(&n.inflight, 1)
	go func() {
		defer atomic.AddInt64(&n.inflight, -1)
		if delay > 0 {
			time.Sleep(delay)
		}
		atomic.AddInt64(&n.Delivered, 1)
		if f := n.OnDeliver; f != nil {
			f(s.from, to, name)
		}
		_ = handler(n.ctx, p2p.Peer{Address: n.Nodes[s.from].Overlay, Mode: FullMode}, srv)
	}()
	return cli, nil
}

func (s *streamer) NewRelayStream(ctx context.Context, address boson.Address, h p2p.Headers, protocol, version, stream string, midCall bool) (p2p.Stream, error) {
	if f := s.net.RelayStream; f != nil {
		return f(s.from, address, protocol, version, stream)
	}
	return nil, errors.New("rtsim: relay streams (virtual) are not simulated")
}

func (s *streamer) NewConnChainRelayStream(ctx context.Context, target boson.Address, h p2p.Headers, protocolName, protocolVersion, streamName string) (p2p.Stream, error) {
	return nil, errors.New("rtsim: use Net.Relay")
}

// newTap returns a function fed with everything the initiator writes; it decodes the first
// length-delimited protobuf message and reports it once.
func (n *Net) newTap(ev Event) func([]byte) {
	var buf []byte
	done := false
	return func(p []byte) {
		if done {
			return
		}
		buf = append(buf, p...)
		l, k := binary.Uvarint(buf)
		if k <= 0 || uint64(len(buf)-k) < l {
			return
		}
		done = true
		body := buf[k : k+int(l)]
		switch ev.Stream {
		case StreamRouteReq:
			m := &pb.RouteReq{}
			if m.Unmarshal(body) == nil {
				ev.Req = m
			}
		case StreamRouteResp:
			m := &pb.RouteResp{}
			if m.Unmarshal(body) == nil {
				ev.Resp = m
			}
		case routetab.StreamOnRelayConnChain, routetab.StreamOnRelay:
			m := &pb.RouteRelayReq{}
			if m.Unmarshal(body) == nil {
				ev.Relay = m
			}
		}
		if f := n.Observe; f != nil {
			f(ev)
		}
	}
}

// RelayResult is the outcome of one relayed connection attempt.
type RelayResult struct {
	FirstHop  int
	Err       error
	Delivered bool // the echo came back from the target
}

// Relay opens a relayed connection from node `from` to node `to` the way
// libp2p.Service.NewConnChainRelayStream does (pkg/p2p/libp2p/libp2p.go): next hop from the
// real GetNextHopRandomOrFind, a relayConnChain stream to it carrying Src/SrcMode/Dest and
// the inner protocol names with an empty Paths list, then wait for the 3-byte ack. After
// that four bytes are sent and expected back (the simulated target echoes them).
func (n *Net) Relay(from, to int, timeout time.Duration) RelayResult {
	src, dst := n.Nodes[from], n.Nodes[to]
	ctx, cancel := context.WithTimeout(n.ctx, timeout)
	defer cancel()
	next, err := src.Svc.GetNextHopRandomOrFind(ctx, dst.Overlay)
	if err != nil {
		return RelayResult{FirstHop: -1, Err: err}
	}
	return n.relayVia(ctx, src, dst, next)
}

// RelayVia opens a relayed connection from -> to whose first hop is the given neighbour of
// the origin instead of the one the origin's own route table would choose: a relay must
// behave whatever neighbour a request comes from (stale routes, dead ends).
func (n *Net) RelayVia(from, to, first int, timeout time.Duration) RelayResult {
	ctx, cancel := context.WithTimeout(n.ctx, timeout)
	defer cancel()
	return n.relayVia(ctx, n.Nodes[from], n.Nodes[to], n.Nodes[first].Overlay)
}

func (n *Net) relayVia(ctx context.Context, src, dst *Node, next boson.Address) RelayResult {
	var err error
	hop, _ := n.Index(next)
	st, err := src.Streamer.NewStream(ctx, next, nil, routetab.ProtocolName, routetab.ProtocolVersion, routetab.StreamOnRelayConnChain)
	if err != nil {
		return RelayResult{FirstHop: hop, Err: err}
	}
	res := make(chan error, 1)
	go func() {
		req := &pb.RouteRelayReq{
			Src:             src.Overlay.Bytes(),
			SrcMode:         FullMode.Bv.Bytes(),
			Dest:            dst.Overlay.Bytes(),
			ProtocolName:    []byte("echo"),
			ProtocolVersion: []byte("1.0.0"),
			StreamName:      []byte("echo"),
		}
		b, err := req.Marshal()
		if err != nil {
			res <- err
			return
		}
		hdr := make([]byte, binary.MaxVarintLen64)
		k := binary.PutUvarint(hdr, uint64(len(b)))
		if _, err := st.Write(append(hdr[:k], b...)); err != nil {
			res <- err
			return
		}
		ack := make([]byte, 3)
		if _, err := io.ReadFull(st, ack); err != nil {
			res <- fmt.Errorf("read ack: %w", err)
			return
		}
		if _, err := st.Write([]byte("ping")); err != nil {
			res <- err
			return
		}
		echo := make([]byte, 4)
		if _, err := io.ReadFull(st, echo); err != nil {
			res <- fmt.Errorf("read echo: %w", err)
			return
		}
		if string(echo) != "ping" {
			res <- fmt.Errorf("echo %q", echo)
			return
		}
		res <- nil
	}()
	select {
	case err = <-res:
	case <-ctx.Done():
		err = ctx.Err()
	}
	if err != nil {
		_ = st.Reset()
		return RelayResult{FirstHop: hop, Err: err}
	}
	_ = st.Close()
	return RelayResult{FirstHop: hop, Delivered: true}
}
