// Package memstore is a storage.Storer over a map that copies chunk data on Put (as the
// real localstore does by serialising into its batch) and records every Put.
package memstore

import (
	"context"
	"sync"

	"github.com/gauss-project/aurorafs/pkg/boson"
	"github.com/gauss-project/aurorafs/pkg/storage"
)

// PutRec is one recorded Put of one chunk.
type PutRec struct {
	Mode  storage.ModePut
	Addr  string
	Len   int
	Exist bool
}

// Store is the recording store.
type Store struct {
	mu     sync.Mutex
	chunks map[string][]byte
	Puts   []PutRec
	// DropData, when set, decides per chunk whether its payload is kept (false: only
	// the address is remembered, Get returns not found). Used for huge files.
	DropData func(addr boson.Address, data []byte) bool
	dropped  map[string]int
}

// New returns an empty store.
func New() *Store { return &Store{chunks: map[string][]byte{}, dropped: map[string]int{}} }

func (s *Store) Get(_ context.Context, _ storage.ModeGet, addr boson.Address) (boson.Chunk, error) {
	s.mu.Lock()
	defer s.mu.Unlock()
	d, ok := s.chunks[addr.String()]
	if !ok {
		return nil, storage.ErrNotFound
	}
	return boson.NewChunk(addr, append([]byte(nil), d...)), nil
}

func (s *Store) Put(_ context.Context, mode storage.ModePut, chs ...boson.Chunk) ([]bool, error) {
	s.mu.Lock()
	defer s.mu.Unlock()
	exist := make([]bool, len(chs))
	for i, ch := range chs {
		k := ch.Address().String()
		_, ok := s.chunks[k]
		_, dr := s.dropped[k]
		exist[i] = ok || dr
		s.Puts = append(s.Puts, PutRec{Mode: mode, Addr: k, Len: len(ch.Data()), Exist: exist[i]})
		if exist[i] {
			continue
		}
		if s.DropData != nil && s.DropData(ch.Address(), ch.Data()) {
			s.dropped[k] = len(ch.Data())
			continue
		}
		s.chunks[k] = append([]byte(nil), ch.Data()...)
	}
	return exist, nil
}

func (s *Store) GetMulti(ctx context.Context, mode storage.ModeGet, addrs ...boson.Address) ([]boson.Chunk, error) {
	out := make([]boson.Chunk, len(addrs))
	for i, a := range addrs {
		c, err := s.Get(ctx, mode, a)
		if err != nil {
			return nil, err
		}
		out[i] = c
	}
	return out, nil
}

func (s *Store) Has(_ context.Context, _ storage.ModeHas, addr boson.Address) (bool, error) {
	s.mu.Lock()
	defer s.mu.Unlock()
	_, ok := s.chunks[addr.String()]
	return ok, nil
}

func (s *Store) HasMulti(ctx context.Context, m storage.ModeHas, addrs ...boson.Address) ([]bool, error) {
	out := make([]bool, len(addrs))
	for i, a := range addrs {
		out[i], _ = s.Has(ctx, m, a)
	}
	return out, nil
}

func (s *Store) Set(_ context.Context, mode storage.ModeSet, addrs ...boson.Address) error {
	s.mu.Lock()
	defer s.mu.Unlock()
	if mode == storage.ModeSetRemove {
		for _, a := range addrs {
			delete(s.chunks, a.String())
		}
	}
	return nil
}

func (s *Store) Close() error { return nil }

// Written returns the set of all addresses ever put (kept or dropped).
func (s *Store) Written() map[string]int {
	s.mu.Lock()
	defer s.mu.Unlock()
	out := map[string]int{}
	for k, v := range s.chunks {
		out[k] = len(v)
	}
	for k, v := range s.dropped {
		out[k] = v
	}
	return out
}

// ResetLog forgets the Put log (not the content).
func (s *Store) ResetLog() { s.mu.Lock(); s.Puts = nil; s.mu.Unlock() }

// Data returns the stored payload of an address (nil if absent).
func (s *Store) Data(addr string) []byte {
	s.mu.Lock()
	defer s.mu.Unlock()
	return s.chunks[addr]
}
