package mininode

import (
	"context"
	"errors"
	"io"
	"sync"

	"github.com/gauss-project/aurorafs/pkg/aurora"
	"github.com/gauss-project/aurorafs/pkg/boson"
	"github.com/gauss-project/aurorafs/pkg/p2p"
)

// Switch is an in-memory p2p.Streamer: NewStream finds the handler of the addressed
// node's protocol and runs it on the other end of a duplex byte pipe. (pkg/p2p/streamtest
// is not used: its record.Read reports io.EOF as soon as the writer has closed, even with
// unread bytes left, which truncates large messages such as pyramid responses.)
type Switch struct {
	self  boson.Address
	mu    sync.RWMutex
	peers map[string][]p2p.ProtocolSpec
	// Streams counts streams opened.
	Streams int
}

// NewSwitch creates the streamer used by the node with overlay self.
func NewSwitch(self boson.Address) *Switch {
	return &Switch{self: self, peers: map[string][]p2p.ProtocolSpec{}}
}

// AddPeer registers the protocols served by the node with overlay addr.
func (s *Switch) AddPeer(addr boson.Address, protos ...p2p.ProtocolSpec) {
	s.mu.Lock()
	s.peers[addr.String()] = append(s.peers[addr.String()], protos...)
	s.mu.Unlock()
}

// SetPeer replaces the protocols registered for addr.
func (s *Switch) SetPeer(addr boson.Address, protos ...p2p.ProtocolSpec) {
	s.mu.Lock()
	s.peers[addr.String()] = protos
	s.mu.Unlock()
}

var errNoPeer = errors.New("mininode: peer not connected")

func (s *Switch) NewStream(ctx context.Context, addr boson.Address, h p2p.Headers, protocolName, protocolVersion, streamName string) (p2p.Stream, error) {
	s.mu.Lock()
	protos := s.peers[addr.String()]
	s.Streams++
	s.mu.Unlock()
	var handler p2p.HandlerFunc
	for _, p := range protos {
		if p.Name != protocolName || p.Version != protocolVersion {
			continue
		}
		for _, ss := range p.StreamSpecs {
			if ss.Name == streamName {
				handler = ss.Handler
			}
		}
	}
	if handler == nil {
		return nil, errNoPeer
	}
	a2b, b2a := newPipe(), newPipe()
	local := &stream{in: b2a, out: a2b}
	remote := &stream{in: a2b, out: b2a}
	go func() {
		_ = handler(context.Background(), p2p.Peer{Address: s.self, Mode: aurora.NewModel().SetMode(aurora.FullNode)}, remote)
	}()
	return local, nil
}

func (s *Switch) NewRelayStream(ctx context.Context, addr boson.Address, h p2p.Headers, protocol, version, stream string, midCall bool) (p2p.Stream, error) {
	return s.NewStream(ctx, addr, h, protocol, version, stream)
}

func (s *Switch) NewConnChainRelayStream(ctx context.Context, target boson.Address, h p2p.Headers, protocolName, protocolVersion, streamName string) (p2p.Stream, error) {
	return s.NewStream(ctx, target, h, protocolName, protocolVersion, streamName)
}

// pipe is a one-directional byte queue: Read blocks until data or close; EOF only once
// closed AND drained; reset makes both ends fail.
type pipe struct {
	mu     sync.Mutex
	cond   *sync.Cond
	buf    []byte
	closed bool
	reset  bool
}

func newPipe() *pipe {
	p := &pipe{}
	p.cond = sync.NewCond(&p.mu)
	return p
}

var errReset = errors.New("mininode: stream reset")

func (p *pipe) Read(b []byte) (int, error) {
	p.mu.Lock()
	defer p.mu.Unlock()
	for len(p.buf) == 0 && !p.closed && !p.reset {
		p.cond.Wait()
	}
	if p.reset {
		return 0, errReset
	}
	if len(p.buf) == 0 {
		return 0, io.EOF
	}
	n := copy(b, p.buf)
	p.buf = p.buf[n:]
	return n, nil
}

func (p *pipe) Write(b []byte) (int, error) {
	p.mu.Lock()
	defer p.mu.Unlock()
	if p.reset {
		return 0, errReset
	}
	if p.closed {
		return 0, errors.New("mininode: write on closed stream")
	}
	p.buf = append(p.buf, b...)
	p.cond.Broadcast()
	return len(b), nil
}

func (p *pipe) close() {
	p.mu.Lock()
	p.closed = true
	p.cond.Broadcast()
	p.mu.Unlock()
}

func (p *pipe) doReset() {
	p.mu.Lock()
	p.reset = true
	p.cond.Broadcast()
	p.mu.Unlock()
}

type stream struct {
	in, out *pipe
}

func (s *stream) Read(b []byte) (int, error)   { return s.in.Read(b) }
func (s *stream) Write(b []byte) (int, error)  { return s.out.Write(b) }
func (s *stream) Close() error                 { s.out.close(); return nil }
func (s *stream) FullClose() error             { s.out.close(); return nil }
func (s *stream) Reset() error                 { s.out.doReset(); s.in.doReset(); return nil }
func (s *stream) Headers() p2p.Headers         { return nil }
func (s *stream) ResponseHeaders() p2p.Headers { return nil }
