// Package mininode wires the real localstore, netstore, traversal, pinning, chunkinfo
// and HTTP api of aurorafs together the way pkg/node/node.go does, minus the libp2p host
// (which does not compile with this toolchain). Peers are connected through an in-memory
// stream switch (streams.go); retrieval is a stub that does exactly
// what retrieval.retrieveChunk does after a successful delivery (report the source to
// chunkinfo, then put the chunk in request mode under the file's root context).
package mininode

import (
	"bytes"
	"context"
	"encoding/json"
	"errors"
	"fmt"
	"io"
	"net/http"
	"net/http/httptest"
	"sync"
	"time"

	"github.com/ethereum/go-ethereum/common"
	"github.com/ethereum/go-ethereum/core/types"
	"github.com/gauss-project/aurorafs/pkg/api"
	"github.com/gauss-project/aurorafs/pkg/aurora"
	"github.com/gauss-project/aurorafs/pkg/boson"
	"github.com/gauss-project/aurorafs/pkg/chunkinfo"
	"github.com/gauss-project/aurorafs/pkg/file/joiner"
	"github.com/gauss-project/aurorafs/pkg/localstore"
	"github.com/gauss-project/aurorafs/pkg/logging"
	"github.com/gauss-project/aurorafs/pkg/netstore"
	"github.com/gauss-project/aurorafs/pkg/pinning"
	"github.com/gauss-project/aurorafs/pkg/resolver"
	"github.com/gauss-project/aurorafs/pkg/routetab"
	"github.com/gauss-project/aurorafs/pkg/rpc"
	"github.com/gauss-project/aurorafs/pkg/sctx"
	"github.com/gauss-project/aurorafs/pkg/settlement/chain"
	"github.com/gauss-project/aurorafs/pkg/statestore/leveldb"
	"github.com/gauss-project/aurorafs/pkg/storage"
	"github.com/gauss-project/aurorafs/pkg/subscribe"
	"github.com/gauss-project/aurorafs/pkg/traversal"

	"verif/harness/internal/pbench"
	"verif/harness/internal/vdb"
)

// Options of a node.
type Options struct {
	Addr     boson.Address // overlay; random-looking default derived from Name
	Name     string
	Capacity uint64 // localstore capacity in chunks (0: 1e6, collection out of reach)
	Driver   string // shed driver name (default vdb.Name); vdb.CrashName with Path = fault name
	Path     string
	State    storage.StateStorer // reuse a state store (restart); nil: fresh one
	// RealState: the fresh state store is the real in-memory leveldb state store (it reserves
	// about 64 MiB); otherwise a map-backed store with the same encoding and ordered iteration.
	RealState bool
	LogTo     io.Writer
}

// Node is one wired mini node.
type Node struct {
	Addr  boson.Address
	Store *localstore.DB
	NS    *netstore.Store
	Trav  traversal.Traverser
	Pin   *pinning.Service
	CI    *chunkinfo.ChunkInfo

	hookMu        sync.Mutex
	beforeDelFile func(root boson.Address)
	State         storage.StateStorer
	API           api.Service
	Retr          *StubRetrieval
	Rec           *Switch
	Chain         *StubChain
	Logger        logging.Logger
	opts          Options
}

// New builds a node.
func New(o Options) (*Node, error) {
	vdb.Register()
	if o.Addr.IsZero() {
		h := make([]byte, 32)
		copy(h, []byte("node:"+o.Name))
		o.Addr = boson.NewAddress(h)
	}
	if o.Capacity == 0 {
		o.Capacity = 1000000
	}
	if o.Driver == "" {
		o.Driver = vdb.Name
	}
	w := o.LogTo
	if w == nil {
		w = io.Discard
	}
	logger := logging.New(w, 0)
	n := &Node{Addr: o.Addr, Logger: logger, opts: o}
	var err error
	n.State = o.State
	if n.State == nil {
		if o.RealState {
			n.State, err = leveldb.NewInMemoryStateStore(logger)
			if err != nil {
				return nil, err
			}
		} else {
			n.State = pbench.NewMemState()
		}
	}
	n.Store, err = localstore.New(o.Path, o.Addr.Bytes(), &localstore.Options{Driver: o.Driver, Capacity: o.Capacity}, logger)
	if err != nil {
		return nil, err
	}
	n.Retr = &StubRetrieval{node: n}
	n.NS = netstore.New(n.Store, n.Retr, logger, o.Addr)
	n.Trav = traversal.New(n.NS)
	n.Pin = pinning.NewService(n.Store, n.State, n.Trav)
	n.Rec = NewSwitch(o.Addr)
	n.Chain = &StubChain{}
	n.CI = chunkinfo.New(o.Addr, n.Rec, logger, n.Trav, n.State, n.NS, stubRoute{}, n.Chain, stubResolver{}, subscribe.NewSubPub())
	if err := n.CI.InitChunkInfo(); err != nil {
		return nil, err
	}
	// the local store reaches chunkinfo through an interposer that can run a callback at the
	// moment a file is handed over for deletion (before chunkinfo takes its lock)
	n.Store.SetChunkInfo(&ciInterposer{Interface: n.CI, n: n})
	n.NS.SetChunkInfo(n.CI)
	n.API = api.New(n.NS, stubResolver{}, o.Addr, n.CI, n.Trav, n.Pin, nil, logger, nil, nil, nil, n.Chain, nil, nil, api.Options{BufferSizeMul: 1})
	return n, nil
}

// ciInterposer forwards everything to the real chunkinfo; DelFile first runs the node's
// BeforeDelFile callback, if one is set.
type ciInterposer struct {
	chunkinfo.Interface
	n *Node
}

func (c *ciInterposer) DelFile(root boson.Address, del func() error) error {
	c.n.hookMu.Lock()
	f := c.n.beforeDelFile
	c.n.hookMu.Unlock()
	if f != nil {
		f(root)
	}
	return c.Interface.DelFile(root, del)
}

// SetBeforeDelFile installs (or with nil removes) a callback that runs whenever the local
// store hands a file to chunkinfo for deletion, before chunkinfo is entered.
func (n *Node) SetBeforeDelFile(f func(root boson.Address)) {
	n.hookMu.Lock()
	n.beforeDelFile = f
	n.hookMu.Unlock()
}

// Close closes the local store (the state store is left open for restarts).
func (n *Node) Close() error {
	n.API.Close()
	return n.Store.Close()
}

// Connect makes each node reachable from the other: chunkinfo streams of a are
// dispatched to b's handlers and vice versa; a's stub retrieval fetches from b.
func Connect(a, b *Node) {
	a.Rec.AddPeer(b.Addr, b.CI.Protocol())
	b.Rec.AddPeer(a.Addr, a.CI.Protocol())
	a.Retr.AddRemote(b)
	b.Retr.AddRemote(a)
}

// ConnectReplacing connects a long-lived source node with a fresh node under test that
// reuses an overlay address: the source forgets the previous node with that address.
func ConnectReplacing(src, n *Node) {
	src.Rec.SetPeer(n.Addr, n.CI.Protocol())
	n.Rec.AddPeer(src.Addr, src.CI.Protocol())
	n.Retr.AddRemote(src)
}

// ---- HTTP helpers ---------------------------------------------------------------------

func (n *Node) do(req *http.Request) *httptest.ResponseRecorder {
	rr := httptest.NewRecorder()
	n.API.ServeHTTP(rr, req)
	return rr
}

// Upload posts a single file to POST /aurora and returns the manifest reference.
func (n *Node) Upload(data []byte, name string, pin, encrypt bool) (boson.Address, error) {
	req := httptest.NewRequest(http.MethodPost, "/aurora?name="+name, bytes.NewReader(data))
	req.Header.Set("Content-Type", "application/octet-stream")
	if pin {
		req.Header.Set(api.AuroraPinHeader, "true")
	}
	if encrypt {
		req.Header.Set(api.AuroraEncryptHeader, "true")
	}
	rr := n.do(req)
	if rr.Code != http.StatusCreated {
		return boson.ZeroAddress, fmt.Errorf("upload: status %d: %s", rr.Code, rr.Body.String())
	}
	var resp struct {
		Reference boson.Address `json:"reference"`
	}
	if err := json.Unmarshal(rr.Body.Bytes(), &resp); err != nil {
		return boson.ZeroAddress, err
	}
	return resp.Reference, nil
}

// UploadChunk posts one content-addressed chunk (payload = span || data) to POST /chunks,
// optionally with the pin header, and returns the status code.
func (n *Node) UploadChunk(payload []byte, pin bool) int {
	req := httptest.NewRequest(http.MethodPost, "/chunks", bytes.NewReader(payload))
	if pin {
		req.Header.Set(api.AuroraPinHeader, "true")
	}
	return n.do(req).Code
}

// Download GETs /aurora/{ref}/ (the index document of a single-file upload).
func (n *Node) Download(ref boson.Address, path string) ([]byte, int) {
	req := httptest.NewRequest(http.MethodGet, "/aurora/"+ref.String()+"/"+path, nil)
	rr := n.do(req)
	return rr.Body.Bytes(), rr.Code
}

// Delete calls DELETE /aurora/{ref}.
func (n *Node) Delete(ref boson.Address) int {
	return n.do(httptest.NewRequest(http.MethodDelete, "/aurora/"+ref.String(), nil)).Code
}

// PinHTTP calls POST /pins/{ref}; UnpinHTTP DELETE /pins/{ref}.
func (n *Node) PinHTTP(ref boson.Address) int {
	return n.do(httptest.NewRequest(http.MethodPost, "/pins/"+ref.String(), nil)).Code
}
func (n *Node) UnpinHTTP(ref boson.Address) int {
	return n.do(httptest.NewRequest(http.MethodDelete, "/pins/"+ref.String(), nil)).Code
}

// ---- local reads -----------------------------------------------------------------------

// ReadLocal joins the content behind a (non-manifest) file reference from the local
// store only: no root context, so netstore never asks the network, and lookup mode, so
// no index is touched.
func (n *Node) ReadLocal(ref boson.Address) ([]byte, error) {
	ctx := context.Background()
	j, span, err := joiner.New(ctx, n.Store, storage.ModeGetLookup, ref)
	if err != nil {
		return nil, err
	}
	buf := make([]byte, span)
	_, err = io.ReadFull(j, buf)
	if err != nil && !(span == 0 && errors.Is(err, io.EOF)) {
		return nil, err
	}
	return buf, nil
}

// Has reports presence in the local store.
func (n *Node) Has(addr boson.Address) bool {
	ok, err := n.Store.Has(context.Background(), storage.ModeHasChunk, addr)
	return err == nil && ok
}

// ReadUnderRoot reads a file reference through netstore under the root context in
// request mode: what a download does (missing chunks are fetched through the stub
// retrieval, present ones are reported to chunkinfo).
func (n *Node) ReadUnderRoot(root, ref boson.Address) ([]byte, error) {
	ctx := sctx.SetRootHash(context.Background(), root)
	j, span, err := joiner.New(ctx, n.NS, storage.ModeGetRequest, ref)
	if err != nil {
		return nil, err
	}
	buf := make([]byte, span)
	_, err = io.ReadFull(j, buf)
	if err != nil && !(span == 0 && errors.Is(err, io.EOF)) {
		return nil, err
	}
	return buf, nil
}

// ---- stub retrieval -----------------------------------------------------------------------

// StubRetrieval stands in for retrieval.Service on the requesting side.
type StubRetrieval struct {
	node    *Node
	mu      sync.Mutex
	remotes []*Node
	// Calls counts network fetches; Fetched lists them.
	Calls   int
	Fetched []string
	// Fail, when set, makes a fetch fail (returns error) if it returns true.
	Fail func(root, addr boson.Address) bool
}

// AddRemote registers a peer to fetch from.
func (r *StubRetrieval) AddRemote(n *Node) {
	r.mu.Lock()
	r.remotes = append(r.remotes, n)
	r.mu.Unlock()
}

// RetrieveChunk mirrors retrieval.Service.retrieveChunk after a valid delivery.
func (r *StubRetrieval) RetrieveChunk(ctx context.Context, rootAddr, chunkAddr boson.Address) (boson.Chunk, error) {
	r.mu.Lock()
	remotes := append([]*Node(nil), r.remotes...)
	r.Calls++
	r.Fetched = append(r.Fetched, chunkAddr.String())
	fail := r.Fail
	r.mu.Unlock()
	if fail != nil && fail(rootAddr, chunkAddr) {
		return nil, errors.New("stub retrieval: injected failure")
	}
	for _, rem := range remotes {
		ch, err := rem.Store.Get(context.Background(), storage.ModeGetLookup, chunkAddr)
		if err != nil {
			continue
		}
		// as retrieval.retrieveChunk: report, then cache
		if err := r.node.CI.OnChunkRetrieved(chunkAddr, rootAddr, rem.Addr); err != nil {
			return nil, fmt.Errorf("retrieval: report chunk source: %v", err)
		}
		chunk := boson.NewChunk(chunkAddr, ch.Data())
		if _, err := r.node.Store.Put(sctx.SetRootHash(ctx, rootAddr), storage.ModePutRequest, chunk); err != nil {
			return nil, fmt.Errorf("retrieval: storage put cache:%v", err)
		}
		return chunk, nil
	}
	return nil, storage.ErrNotFound
}

func (r *StubRetrieval) GetRouteScore(int64) map[string]int64 { return nil }

// ---- stubs -----------------------------------------------------------------------------

type stubRoute struct{}

func (stubRoute) GetRoute(context.Context, boson.Address) ([]*routetab.Path, error) {
	return nil, errors.New("no route")
}
func (stubRoute) FindRoute(context.Context, boson.Address, ...time.Duration) ([]*routetab.Path, error) {
	return nil, errors.New("no route")
}
func (stubRoute) DelRoute(context.Context, boson.Address) error { return nil }
func (stubRoute) Connect(context.Context, boson.Address) error  { return nil }
func (stubRoute) GetTargetNeighbor(context.Context, boson.Address, int) ([]boson.Address, error) {
	return nil, errors.New("no neighbor")
}
func (stubRoute) IsNeighbor(boson.Address) bool { return true }
func (stubRoute) FindUnderlay(context.Context, boson.Address, ...time.Duration) (*aurora.Address, error) {
	return nil, errors.New("no underlay")
}

type stubResolver struct{}

func (stubResolver) Resolve(string) (resolver.Address, error) {
	return boson.ZeroAddress, errors.New("no resolver")
}
func (stubResolver) Close() error { return nil }

// StubChain is the oracle chain: returns harness-controlled source nodes.
type StubChain struct {
	mu      sync.Mutex
	Sources map[string][]boson.Address
}

func (c *StubChain) SetSources(root boson.Address, nodes ...boson.Address) {
	c.mu.Lock()
	if c.Sources == nil {
		c.Sources = map[string][]boson.Address{}
	}
	c.Sources[root.String()] = nodes
	c.mu.Unlock()
}
func (c *StubChain) GetCid(string) []byte { return nil }
func (c *StubChain) GetNodesFromCid(cid []byte) []boson.Address {
	c.mu.Lock()
	defer c.mu.Unlock()
	return c.Sources[boson.NewAddress(cid).String()]
}
func (c *StubChain) GetSourceNodes(string) []boson.Address                       { return nil }
func (c *StubChain) OnStoreMatched(boson.Address, uint64, uint64, boson.Address) {}
func (c *StubChain) DataStoreFinished(boson.Address, uint64, uint64, []byte, chan chain.ChainResult) {
}
func (c *StubChain) RegisterCidAndNode(context.Context, boson.Address, boson.Address) (common.Hash, error) {
	return common.Hash{}, nil
}
func (c *StubChain) RemoveCidAndNode(context.Context, boson.Address, boson.Address) (common.Hash, error) {
	return common.Hash{}, nil
}
func (c *StubChain) GetRegisterState(context.Context, boson.Address, boson.Address) (bool, error) {
	return false, nil
}
func (c *StubChain) WaitForReceipt(context.Context, boson.Address, common.Hash) (*types.Receipt, error) {
	return nil, errors.New("no chain")
}
func (c *StubChain) API() rpc.API { return rpc.API{} }
