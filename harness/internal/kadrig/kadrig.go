// Package kadrig builds the real kademlia.Kad the way its own tests do: exported mocks
// for p2p / discovery / pinger, a real addressbook over an in-memory leveldb state
// store, an in-memory shed DB for the peer metrics. It is shared by the C22-C24 checks.
package kadrig

import (
	"context"
	"fmt"
	"io"
	"sync"
	"testing"
	"time"

	"github.com/gauss-project/aurorafs/pkg/addressbook"
	"github.com/gauss-project/aurorafs/pkg/aurora"
	"github.com/gauss-project/aurorafs/pkg/boson"
	"github.com/gauss-project/aurorafs/pkg/crypto"
	discmock "github.com/gauss-project/aurorafs/pkg/discovery/mock"
	"github.com/gauss-project/aurorafs/pkg/logging"
	"github.com/gauss-project/aurorafs/pkg/p2p"
	p2pmock "github.com/gauss-project/aurorafs/pkg/p2p/mock"
	pingmock "github.com/gauss-project/aurorafs/pkg/pingpong/mock"
	"github.com/gauss-project/aurorafs/pkg/shed"
	"github.com/gauss-project/aurorafs/pkg/statestore/leveldb"
	"github.com/gauss-project/aurorafs/pkg/storage"
	"github.com/gauss-project/aurorafs/pkg/subscribe"
	"github.com/gauss-project/aurorafs/pkg/topology"
	"github.com/gauss-project/aurorafs/pkg/topology/kademlia"
	ma "github.com/multiformats/go-multiaddr"
	"verif/harness/internal/vdb"
)

// Thresholds returns the project's per-bin thresholds for a BinMaxPeers setting
// (configuration rule of kademlia.Options.BinMaxPeers: the maximum is rounded up to a
// multiple of five, the saturation number is 2/5 and the quick-saturation number 1/5 of it).
func Thresholds(binMaxPeers int) (quick, sat, over int) {
	if binMaxPeers < 5 {
		binMaxPeers = 5
	}
	over = binMaxPeers
	if over%5 != 0 {
		over = over - over%5 + 5
	}
	return over / 5, over / 5 * 2, over
}

// Options of a rig.
type Options struct {
	Base        []byte // 32 bytes
	BinMaxPeers int    // always set explicitly (the thresholds are package globals of kademlia)
	BootNode    bool   // own node mode
	Start       bool   // run the manage loop
	PruneFunc   func(depth uint8)
	FreshStores bool // own metrics DB and state store even if the manage loop is not started
	// Connect, if set, serves p2p.Connect (outbound dials); default: always fails with ErrPeerBlocklisted
	// (an error kind that has no side effect on the topology).
	Connect func(ctx context.Context, addr ma.Multiaddr) (*p2p.Peer, error)
	// Disconnect, if set, serves p2p.Disconnect after the mock has delivered the Disconnected
	// notification to the topology (libp2p notifies the topology from inside Disconnect too).
	Disconnect func(overlay boson.Address, reason string) error
	// Broadcast, if set, serves discovery.BroadcastPeers (gossip); default: recorded, never fails.
	Broadcast func(ctx context.Context, addressee boson.Address, peers ...boson.Address) error
	// Bootnodes to dial when no peer is connected (manage loop).
	Bootnodes []ma.Multiaddr
}

// Rig is one Kad with its collaborators.
type Rig struct {
	Base   boson.Address
	Kad    *kademlia.Kad
	AB     addressbook.Interface
	Disc   *discmock.Discovery
	P2P    *p2pmock.Service
	signer crypto.Signer
	db     *shed.DB
	store  storage.StateStorer
	opts   Options
	mu     sync.Mutex
	under  map[string]ma.Multiaddr
}

var (
	sharedOnce   sync.Once
	sharedSigner crypto.Signer
	sharedSubPub subscribe.SubPub

	sharedStoresOnce sync.Once
	sharedDB         *shed.DB
	sharedStore      storage.StateStorer
)

func shared() {
	sharedOnce.Do(func() {
		pk, err := crypto.GenerateSecp256k1Key()
		if err != nil {
			panic(err)
		}
		sharedSigner = crypto.NewDefaultSigner(pk)
		sharedSubPub = subscribe.NewSubPub()
	})
}

// FullMode / BootMode are the node modes of remote peers.
func FullMode() aurora.Model { return aurora.NewModel().SetMode(aurora.FullNode) }

// BootMode is the mode of a boot node (which is also a full node, as in cmd).
func BootMode() aurora.Model {
	return aurora.NewModel().SetMode(aurora.FullNode).SetMode(aurora.BootNode)
}

// New builds a rig; harness errors are t.Fatal.
func New(t testing.TB, o Options) *Rig {
	t.Helper()
	shared()
	if o.BinMaxPeers <= 0 {
		t.Fatal("kadrig: BinMaxPeers must be set explicitly")
	}
	logger := logging.New(io.Discard, 0)
	// Opening an in-memory leveldb costs ~100 ms (it clears a large write buffer), so rigs whose
	// manage loop is not started share one metrics DB and one state store: such a Kad never
	// flushes its counters and never reads the addressbook on its own, and peers are random
	// 32-byte addresses, so rigs cannot see each other's entries. Started rigs get fresh stores.
	var (
		db  *shed.DB
		st  storage.StateStorer
		err error
	)
	if o.Start || o.FreshStores {
		if db, err = shed.NewDB("", vdb.Opts()); err != nil {
			t.Fatal(err)
		}
		if st, err = leveldb.NewInMemoryStateStore(logger); err != nil {
			t.Fatal(err)
		}
	} else {
		sharedStoresOnce.Do(func() {
			if sharedDB, err = shed.NewDB("", vdb.Opts()); err != nil {
				t.Fatal(err)
			}
			if sharedStore, err = leveldb.NewInMemoryStateStore(logger); err != nil {
				t.Fatal(err)
			}
		})
		db, st = sharedDB, sharedStore
	}
	r := &Rig{Base: boson.NewAddress(o.Base), signer: sharedSigner, db: db, store: st, opts: o, under: map[string]ma.Multiaddr{}}
	r.AB = addressbook.New(st)
	if o.Broadcast != nil {
		r.Disc = discmock.NewDiscovery(discmock.WithBroadcastPeers(o.Broadcast))
	} else {
		r.Disc = discmock.NewDiscovery()
	}
	r.P2P = p2pmock.New(
		p2pmock.WithConnectFunc(func(ctx context.Context, addr ma.Multiaddr) (*p2p.Peer, error) {
			if o.Connect != nil {
				return o.Connect(ctx, addr)
			}
			return nil, p2p.ErrPeerBlocklisted
		}),
		p2pmock.WithDisconnectFunc(func(overlay boson.Address, reason string) error {
			if o.Disconnect != nil {
				return o.Disconnect(overlay, reason)
			}
			return nil
		}),
		p2pmock.WithBlocklistFunc(func(boson.Address, time.Duration, string) error { return nil }),
	)
	pinger := pingmock.New(func(context.Context, boson.Address, ...string) (time.Duration, error) { return 0, nil })
	mode := FullMode()
	if o.BootNode {
		mode = BootMode()
	}
	kad, err := kademlia.New(r.Base, r.AB, r.Disc, r.P2P, pinger, nil, nil, db, logger, sharedSubPub, kademlia.Options{
		NodeMode:    mode,
		BinMaxPeers: o.BinMaxPeers,
		PruneFunc:   o.PruneFunc,
		Bootnodes:   o.Bootnodes,
	})
	if err != nil {
		t.Fatal(err)
	}
	r.Kad = kad
	r.P2P.SetPickyNotifier(kad)
	if o.Start {
		if err := kad.Start(context.Background()); err != nil {
			t.Fatal(err)
		}
	}
	return r
}

// Close releases the rig and returns the error of Kad.Close, if any. A Kad whose manage
// loop was never started is not Close()d (its Close waits 5 s for the loop to exit); its
// single idle blocker goroutine is left behind.
func (r *Rig) Close(t testing.TB) error {
	var err error
	if r.opts.Start {
		err = r.Kad.Close()
	}
	if err != nil {
		return err // goroutines of the Kad may still be running: leave its stores open
	}
	if r.opts.Start || r.opts.FreshStores {
		_ = r.db.Close()
		_ = r.store.Close()
	}
	return nil
}

// StartLoop starts the manage loop of a rig that was built with FreshStores and without Start.
func (r *Rig) StartLoop(t testing.TB) {
	if !r.opts.FreshStores || r.opts.Start {
		t.Fatal("kadrig: StartLoop needs a rig built with FreshStores and without Start")
	}
	r.opts.Start = true
	if err := r.Kad.Start(context.Background()); err != nil {
		t.Fatal(err)
	}
}

// UnderlayOf is the (deterministic) underlay address the rigs use for an overlay.
func UnderlayOf(overlay []byte) ma.Multiaddr {
	m, err := ma.NewMultiaddr(fmt.Sprintf("/ip4/127.0.0.1/tcp/1634/dns/%x", overlay))
	if err != nil {
		panic(err)
	}
	return m
}

// Underlay returns the underlay address used for an overlay.
func (r *Rig) Underlay(overlay []byte) ma.Multiaddr {
	r.mu.Lock()
	defer r.mu.Unlock()
	if m, ok := r.under[string(overlay)]; ok {
		return m
	}
	m := UnderlayOf(overlay)
	r.under[string(overlay)] = m
	return m
}

// PutAddress stores the peer's signed address record in the addressbook, as the
// handshake does before the topology hears about a peer.
func (r *Rig) PutAddress(t testing.TB, overlay []byte) {
	a, err := aurora.NewAddress(r.signer, r.Underlay(overlay), boson.NewAddress(overlay), 0)
	if err != nil {
		t.Fatal(err)
	}
	if err := r.AB.Put(boson.NewAddress(overlay), *a); err != nil {
		t.Fatal(err)
	}
}

// Peer makes the p2p.Peer value for an overlay.
func Peer(overlay []byte, mode aurora.Model) p2p.Peer {
	return p2p.Peer{Address: boson.NewAddress(overlay), Mode: mode}
}

// Connected returns the peers the topology reports as connected (EachPeer, no filter):
// address -> reported bin; dup lists addresses reported more than once.
func (r *Rig) Connected() (set map[string]int, dup []string) {
	set = map[string]int{}
	_ = r.Kad.EachPeer(func(a boson.Address, po uint8) (bool, bool, error) {
		if _, ok := set[string(a.Bytes())]; ok {
			dup = append(dup, string(a.Bytes()))
		}
		set[string(a.Bytes())] = int(po)
		return false, false, nil
	}, topology.Filter{})
	return
}

// Known returns the peers the topology reports as known (EachKnownPeer).
func (r *Rig) Known() (set map[string]int, dup []string) {
	set = map[string]int{}
	_ = r.Kad.EachKnownPeer(func(a boson.Address, po uint8) (bool, bool, error) {
		if _, ok := set[string(a.Bytes())]; ok {
			dup = append(dup, string(a.Bytes()))
		}
		set[string(a.Bytes())] = int(po)
		return false, false, nil
	})
	return
}
