// Package trafficx wires the real traffic.Service (real cheque store, address book and
// cheque signer) to harness-controlled collaborators: a stub chain, cash-out service,
// cheque-delivery protocol, p2p service and pub/sub, the way pkg/node/chain.go:InitTraffic
// does it. Used by the checks of C30, C31 and C33.
package trafficx

import (
	"context"
	"errors"
	"math/big"
	"sync"

	"github.com/ethereum/go-ethereum/common"
	"github.com/ethereum/go-ethereum/core/types"
	"github.com/gauss-project/aurorafs/pkg/boson"
	"github.com/gauss-project/aurorafs/pkg/p2p"
	chequePkg "github.com/gauss-project/aurorafs/pkg/settlement/traffic/cheque"
	"github.com/gauss-project/aurorafs/pkg/subscribe"
)

// ---------------------------------------------------------------- chain

// Chain is a stub chain.Traffic whose values the harness sets. Every getter returns a
// fresh big.Int (as an RPC decoding would), never a pointer into the stub.
type Chain struct {
	mu      sync.Mutex
	balance map[common.Address]*big.Int
	trans   map[[2]common.Address]*big.Int // (issuer, payee) -> amount cashed on chain
	retr    []common.Address
	tran    []common.Address
	calls   map[string]int
	onCall  func(name string, a, b common.Address)
}

func NewChain() *Chain {
	return &Chain{balance: map[common.Address]*big.Int{}, trans: map[[2]common.Address]*big.Int{}, calls: map[string]int{}}
}

// OnCall installs a callback run (outside the stub's lock) at every call.
func (c *Chain) OnCall(f func(name string, a, b common.Address)) {
	c.mu.Lock()
	c.onCall = f
	c.mu.Unlock()
}

func (c *Chain) note(name string, a, b common.Address) {
	c.mu.Lock()
	c.calls[name]++
	f := c.onCall
	c.mu.Unlock()
	if f != nil {
		f(name, a, b)
	}
}

func (c *Chain) Calls(name string) int {
	c.mu.Lock()
	defer c.mu.Unlock()
	return c.calls[name]
}

func (c *Chain) SetBalance(a common.Address, v *big.Int) {
	c.mu.Lock()
	c.balance[a] = new(big.Int).Set(v)
	c.mu.Unlock()
}

// SetTrans sets the amount `payee` has cashed on chain from cheques issued by `issuer`.
func (c *Chain) SetTrans(issuer, payee common.Address, v *big.Int) {
	c.mu.Lock()
	c.trans[[2]common.Address{issuer, payee}] = new(big.Int).Set(v)
	c.mu.Unlock()
}

func (c *Chain) SetLists(retrieved, transferred []common.Address) {
	c.mu.Lock()
	c.retr = append([]common.Address(nil), retrieved...)
	c.tran = append([]common.Address(nil), transferred...)
	c.mu.Unlock()
}

func (c *Chain) TransferredAddress(address common.Address) ([]common.Address, error) {
	c.note("TransferredAddress", address, common.Address{})
	c.mu.Lock()
	defer c.mu.Unlock()
	return append([]common.Address(nil), c.tran...), nil
}

func (c *Chain) RetrievedAddress(address common.Address) ([]common.Address, error) {
	c.note("RetrievedAddress", address, common.Address{})
	c.mu.Lock()
	defer c.mu.Unlock()
	return append([]common.Address(nil), c.retr...), nil
}

func (c *Chain) BalanceOf(account common.Address) (*big.Int, error) {
	c.note("BalanceOf", account, common.Address{})
	c.mu.Lock()
	defer c.mu.Unlock()
	if v, ok := c.balance[account]; ok {
		return new(big.Int).Set(v), nil
	}
	return big.NewInt(0), nil
}

func (c *Chain) RetrievedTotal(address common.Address) (*big.Int, error) {
	c.note("RetrievedTotal", address, common.Address{})
	return big.NewInt(0), nil
}

func (c *Chain) TransferredTotal(address common.Address) (*big.Int, error) {
	c.note("TransferredTotal", address, common.Address{})
	c.mu.Lock()
	defer c.mu.Unlock()
	sum := big.NewInt(0)
	for k, v := range c.trans {
		if k[0] == address {
			sum.Add(sum, v)
		}
	}
	return sum, nil
}

func (c *Chain) TransAmount(beneficiary, recipient common.Address) (*big.Int, error) {
	c.note("TransAmount", beneficiary, recipient)
	c.mu.Lock()
	defer c.mu.Unlock()
	if v, ok := c.trans[[2]common.Address{beneficiary, recipient}]; ok {
		return new(big.Int).Set(v), nil
	}
	return big.NewInt(0), nil
}

func (c *Chain) CashChequeBeneficiary(ctx context.Context, peer boson.Address, beneficiary, recipient common.Address, cumulativePayout *big.Int, signature []byte) (*types.Transaction, error) {
	return nil, errors.New("trafficx: CashChequeBeneficiary is not stubbed (the cash-out service is a stub)")
}

// ---------------------------------------------------------------- cash-out

// Cashout is a stub cheque.CashoutService.
type Cashout struct {
	mu      sync.Mutex
	n       int64
	OnCash  func(peer boson.Address, issuer, payee common.Address) error // may be nil
	Receipt func(h common.Hash) (uint64, error)                          // nil => status 1
}

func (c *Cashout) CashCheque(ctx context.Context, peer boson.Address, beneficiary common.Address, recipient common.Address) (common.Hash, error) {
	if c.OnCash != nil {
		if err := c.OnCash(peer, beneficiary, recipient); err != nil {
			return common.Hash{}, err
		}
	}
	c.mu.Lock()
	c.n++
	h := common.BigToHash(big.NewInt(c.n))
	c.mu.Unlock()
	return h, nil
}

func (c *Cashout) WaitForReceipt(ctx context.Context, h common.Hash) (uint64, error) {
	if c.Receipt != nil {
		return c.Receipt(h)
	}
	return 1, nil
}

// ---------------------------------------------------------------- cheque delivery

// Emitted is a cheque handed to the delivery protocol, copied at the time of the call.
type Emitted struct {
	Peer      boson.Address
	Recipient common.Address
	Issuer    common.Address
	Payout    *big.Int
	Signature []byte
	Delivered bool
}

// Proto is a stub trafficprotocol.Interface recording every EmitCheque.
type Proto struct {
	mu   sync.Mutex
	log  []Emitted
	Fail func(peer boson.Address, payout *big.Int) error // nil => delivery succeeds
	Hook func(e Emitted)                                 // called after recording
}

func (p *Proto) EmitCheque(ctx context.Context, peer boson.Address, c *chequePkg.SignedCheque) error {
	var err error
	var payout *big.Int
	if c.CumulativePayout != nil {
		payout = new(big.Int).Set(c.CumulativePayout)
	}
	if p.Fail != nil {
		err = p.Fail(peer, payout)
	}
	e := Emitted{Peer: peer, Recipient: c.Recipient, Issuer: c.Beneficiary, Payout: payout,
		Signature: append([]byte(nil), c.Signature...), Delivered: err == nil}
	p.mu.Lock()
	p.log = append(p.log, e)
	p.mu.Unlock()
	if p.Hook != nil {
		p.Hook(e)
	}
	return err
}

func (p *Proto) Log() []Emitted {
	p.mu.Lock()
	defer p.mu.Unlock()
	return append([]Emitted(nil), p.log...)
}

// ---------------------------------------------------------------- p2p

// P2P is a stub p2p.Service: only Disconnect is ever reached by the traffic service.
type P2P struct {
	p2p.Service
	mu           sync.Mutex
	Disconnected []string
}

func (p *P2P) Disconnect(overlay boson.Address, reason string) error {
	p.mu.Lock()
	p.Disconnected = append(p.Disconnected, overlay.String())
	p.mu.Unlock()
	return nil
}

// ---------------------------------------------------------------- pub/sub

// Pub is a stub subscribe.SubPub; cash-out notifications are forwarded to CashOut.
type Pub struct {
	CashOut chan interface{}
}

func NewPub() *Pub { return &Pub{CashOut: make(chan interface{}, 1024)} }

func (p *Pub) Subscribe(n subscribe.INotifier, nameSpace string, kind string, param string) error {
	return nil
}

func (p *Pub) Publish(nameSpace string, kind string, param string, message interface{}) error {
	if kind == "cashOut" {
		select {
		case p.CashOut <- message:
		default:
		}
	}
	return nil
}

func (p *Pub) PublishArray(nameSpace string, kind string, field string, messageList []interface{}) error {
	return nil
}
