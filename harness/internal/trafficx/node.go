package trafficx

import (
	"crypto/ecdsa"
	"io/ioutil"
	"math/big"
	"math/rand"
	"sync"

	"github.com/ethereum/go-ethereum/common"
	"github.com/gauss-project/aurorafs/pkg/boson"
	"github.com/gauss-project/aurorafs/pkg/crypto"
	"github.com/gauss-project/aurorafs/pkg/logging"
	"github.com/gauss-project/aurorafs/pkg/settlement/traffic"
	chequePkg "github.com/gauss-project/aurorafs/pkg/settlement/traffic/cheque"
	"github.com/gauss-project/aurorafs/pkg/storage"
)

// ChainID used for every EIP-712 cheque signature in the harness.
const ChainID = int64(7)

// Party is a key pair with its chain address and (for peers) an overlay address.
type Party struct {
	Name    string
	Key     *ecdsa.PrivateKey
	Addr    common.Address
	Overlay boson.Address
	Signer  chequePkg.ChequeSigner
}

// NewParty makes a party from a deterministic PRNG.
func NewParty(name string, rng *rand.Rand) *Party {
	for {
		b := make([]byte, 32)
		rng.Read(b)
		k := crypto.Secp256k1PrivateKeyFromBytes(b)
		if k == nil || k.D.Sign() == 0 {
			continue
		}
		eth, err := crypto.NewEthereumAddress(k.PublicKey)
		if err != nil {
			continue
		}
		o := make([]byte, 32)
		rng.Read(o)
		return &Party{Name: name, Key: k, Addr: common.BytesToAddress(eth), Overlay: boson.NewAddress(o),
			Signer: chequePkg.NewChequeSigner(crypto.NewDefaultSigner(k), ChainID)}
	}
}

// Sign signs a cheque (recipient, stated issuer, payout) with this party's key.
func (p *Party) Sign(recipient, issuer common.Address, payout *big.Int) (*chequePkg.SignedCheque, error) {
	c := chequePkg.Cheque{Recipient: recipient, Beneficiary: issuer, CumulativePayout: payout}
	sig, err := p.Signer.Sign(&c)
	if err != nil {
		return nil, err
	}
	return &chequePkg.SignedCheque{Cheque: c, Signature: sig}, nil
}

// Notified is one call of the payment-notification callback.
type Notified struct {
	Peer   boson.Address
	Amount *big.Int
}

// Node is a traffic.Service wired like pkg/node/chain.go:InitTraffic with stub collaborators.
type Node struct {
	Self  *Party
	Store storage.StateStorer
	Chain *Chain
	Cash  *Cashout
	Proto *Proto
	P2P   *P2P
	Pub   *Pub
	CS    chequePkg.ChequeStore
	Book  traffic.Addressbook
	Svc   *traffic.Service

	mu       sync.Mutex
	notified []Notified
}

// WrapCS, when non-nil, lets a check interpose on the real cheque store (observation only).
type Options struct {
	WrapCS func(chequePkg.ChequeStore) chequePkg.ChequeStore
	Cash   *Cashout
	Proto  *Proto
}

// NewNode builds the service over store; it does not call Init.
func NewNode(self *Party, store storage.StateStorer, chain *Chain, o Options) *Node {
	logger := logging.New(ioutil.Discard, 0)
	n := &Node{Self: self, Store: store, Chain: chain, Cash: o.Cash, Proto: o.Proto, P2P: &P2P{}, Pub: NewPub()}
	if n.Cash == nil {
		n.Cash = &Cashout{}
	}
	if n.Proto == nil {
		n.Proto = &Proto{}
	}
	n.CS = chequePkg.NewChequeStore(store, self.Addr, chequePkg.RecoverCheque, ChainID)
	if o.WrapCS != nil {
		n.CS = o.WrapCS(n.CS)
	}
	n.Book = traffic.NewAddressBook(store)
	n.Svc = traffic.New(logger, self.Addr, store, chain, n.CS, n.Cash, n.P2P, n.Book, self.Signer, n.Proto, ChainID, n.Pub)
	n.Svc.SetNotifyPaymentFunc(func(peer boson.Address, amount *big.Int) error {
		n.mu.Lock()
		n.notified = append(n.notified, Notified{Peer: peer, Amount: new(big.Int).Set(amount)})
		n.mu.Unlock()
		return nil
	})
	return n
}

// Notified returns the payment notifications seen so far.
func (n *Node) Notified() []Notified {
	n.mu.Lock()
	defer n.mu.Unlock()
	return append([]Notified(nil), n.notified...)
}
