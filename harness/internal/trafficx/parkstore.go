package trafficx

import (
	"io/ioutil"
	"sync"
	"sync/atomic"
	"time"

	"github.com/gauss-project/aurorafs/pkg/logging"
	"github.com/gauss-project/aurorafs/pkg/shed/driver"
	statestore "github.com/gauss-project/aurorafs/pkg/statestore/leveldb"
	"github.com/gauss-project/aurorafs/pkg/storage"
)

// Clock is a logical clock shared by the store wrapper and the workload.
type Clock struct{ n int64 }

func (c *Clock) Now() int64 { return atomic.AddInt64(&c.n, 1) }

// Write is one mutation of the state store, in the order the mutations reached the DB.
type Write struct {
	Key   string
	Val   []byte // raw stored bytes (nil for a delete)
	Del   bool
	Start int64 // logical stamp taken immediately before the mutation was applied
}

// ParkRule parks the first Put it matches until Release is closed.
type ParkRule struct {
	Match   func(key string, val interface{}) bool
	Parked  chan struct{} // closed by the store when a Put is parked on this rule
	Release chan struct{} // closed by the harness to let the parked Put proceed
	used    bool
	// TimedOut is set when the safety timeout released the Put (harness error).
	TimedOut int32
}

func NewParkRule(match func(key string, val interface{}) bool) *ParkRule {
	return &ParkRule{Match: match, Parked: make(chan struct{}), Release: make(chan struct{})}
}

// ParkStore wraps a real state store. It (1) can hold back a chosen Put so that the
// harness decides the order in which concurrent persists reach the DB, and (2) logs every
// mutation so that the store contents after any prefix of the writes can be rebuilt
// ("restart at any crash point"). It never alters what is written.
type ParkStore struct {
	inner storage.StateStorer
	clock *Clock
	mu    sync.Mutex // serialises mutations: log order == DB order
	base  []Write
	log   []Write
	rmu   sync.Mutex
	rules []*ParkRule
	// Jitter, when set, runs before every Put reaches the DB (outside all locks): the
	// harness uses it for seeded yields / microsleeps, i.e. varying store latency.
	Jitter func(key string)
}

var _ storage.StateStorer = (*ParkStore)(nil)

// NewMemStore returns a fresh in-memory leveldb state store (the real implementation).
func NewMemStore() (storage.StateStorer, error) {
	return statestore.NewInMemoryStateStore(logging.New(ioutil.Discard, 0))
}

// Wrap wraps inner; the present contents of inner become the base of every snapshot.
func Wrap(inner storage.StateStorer, clock *Clock) (*ParkStore, error) {
	p := &ParkStore{inner: inner, clock: clock}
	err := inner.Iterate("", func(k, v []byte) (bool, error) {
		p.base = append(p.base, Write{Key: string(k), Val: append([]byte(nil), v...)})
		return false, nil
	})
	return p, err
}

// Arm installs a park rule.
func (p *ParkStore) Arm(r *ParkRule) {
	p.rmu.Lock()
	p.rules = append(p.rules, r)
	p.rmu.Unlock()
}

// Disarm removes all unused rules.
func (p *ParkStore) Disarm() {
	p.rmu.Lock()
	p.rules = nil
	p.rmu.Unlock()
}

func (p *ParkStore) gate(key string, val interface{}) {
	p.rmu.Lock()
	var hit *ParkRule
	for _, r := range p.rules {
		if !r.used && r.Match(key, val) {
			r.used = true
			hit = r
			break
		}
	}
	p.rmu.Unlock()
	if hit == nil {
		return
	}
	close(hit.Parked)
	select {
	case <-hit.Release:
	case <-time.After(60 * time.Second):
		atomic.StoreInt32(&hit.TimedOut, 1)
	}
}

func (p *ParkStore) Get(key string, i interface{}) error { return p.inner.Get(key, i) }

func (p *ParkStore) Put(key string, i interface{}) error {
	p.gate(key, i)
	if j := p.Jitter; j != nil {
		j(key)
	}
	p.mu.Lock()
	defer p.mu.Unlock()
	start := p.clock.Now()
	if err := p.inner.Put(key, i); err != nil {
		return err
	}
	raw, err := p.inner.DB().Get(driver.Key{Data: []byte(key)})
	if err != nil {
		return err
	}
	p.log = append(p.log, Write{Key: key, Val: append([]byte(nil), raw...), Start: start})
	return nil
}

func (p *ParkStore) Delete(key string) error {
	p.mu.Lock()
	defer p.mu.Unlock()
	start := p.clock.Now()
	if err := p.inner.Delete(key); err != nil {
		return err
	}
	p.log = append(p.log, Write{Key: key, Del: true, Start: start})
	return nil
}

func (p *ParkStore) Iterate(prefix string, f storage.StateIterFunc) error {
	return p.inner.Iterate(prefix, f)
}

func (p *ParkStore) DB() driver.BatchDB { return p.inner.DB() }

func (p *ParkStore) Close() error { return p.inner.Close() }

// Writes returns the mutation log so far.
func (p *ParkStore) Writes() []Write {
	p.mu.Lock()
	defer p.mu.Unlock()
	return append([]Write(nil), p.log...)
}

// Snapshot builds a new in-memory state store holding the base contents plus the first
// k logged mutations: what a process restarted after exactly k writes would find.
func (p *ParkStore) Snapshot(k int) (storage.StateStorer, error) {
	p.mu.Lock()
	ws := append(append([]Write(nil), p.base...), p.log[:k]...)
	p.mu.Unlock()
	s, err := NewMemStore()
	if err != nil {
		return nil, err
	}
	db := s.DB()
	for _, w := range ws {
		if w.Del {
			err = db.Delete(driver.Key{Data: []byte(w.Key)})
		} else {
			err = db.Put(driver.Key{Data: []byte(w.Key)}, driver.Value{Data: w.Val})
		}
		if err != nil {
			return nil, err
		}
	}
	return s, nil
}

// SnapshotInto is Snapshot into an existing scratch store: dst is wiped first. Opening a
// leveldb store costs tens of milliseconds (it clears its write buffer), so checks that
// restart hundreds of times reuse one scratch store.
func (p *ParkStore) SnapshotInto(dst storage.StateStorer, k int) error {
	p.mu.Lock()
	ws := append(append([]Write(nil), p.base...), p.log[:k]...)
	p.mu.Unlock()
	var keys [][]byte
	if err := dst.Iterate("", func(key, _ []byte) (bool, error) {
		keys = append(keys, append([]byte(nil), key...))
		return false, nil
	}); err != nil {
		return err
	}
	db := dst.DB()
	for _, key := range keys {
		if err := db.Delete(driver.Key{Data: key}); err != nil {
			return err
		}
	}
	for _, w := range ws {
		var err error
		if w.Del {
			err = db.Delete(driver.Key{Data: []byte(w.Key)})
		} else {
			err = db.Put(driver.Key{Data: []byte(w.Key)}, driver.Value{Data: w.Val})
		}
		if err != nil {
			return err
		}
	}
	return nil
}
