// Package fsim is the file-level workload engine on top of mininode: a node under test
// (small capacity, background collection gated by the monitor), a source node that serves
// files to be cached, a pool of 256 KiB blocks from which overlapping files are built, and
// an independent record of which chunks each file consists of (taken from a fresh node
// that received only that file).
package fsim

import (
	"bytes"
	"context"
	"fmt"
	"math/rand"
	"sort"
	"strings"
	"sync/atomic"
	"time"

	"github.com/gauss-project/aurorafs/pkg/boson"
	"github.com/gauss-project/aurorafs/pkg/file/loadsave"
	"github.com/gauss-project/aurorafs/pkg/localstore"
	"github.com/gauss-project/aurorafs/pkg/manifest"
	"github.com/gauss-project/aurorafs/pkg/sctx"
	"github.com/gauss-project/aurorafs/pkg/storage"
	"github.com/gauss-project/aurorafs/pkg/verifhook"

	"verif/harness/internal/mininode"
	"verif/harness/internal/spec"
	"verif/harness/internal/vdb"
)

const CS = spec.ChunkSize

var clock int64 = 1 << 20

func init() {
	// one strictly increasing logical clock for every store of the process
	localstore.VerifSetNow(func() int64 {
		// granularity 1: strictly increasing; g > 1: only every g-th reading advances the
		// clock, so that successive operations see the same time (a coarse timer)
		if g := atomic.LoadInt64(&granularity); g > 1 && atomic.AddInt64(&readings, 1)%g != 0 {
			return atomic.LoadInt64(&clock)
		}
		return atomic.AddInt64(&clock, 1)
	})
	// collections run when the monitor says so, not in a background goroutine
	verifhook.SetFlag("localstore.gcworker.off", true)
}

var granularity, readings int64

// SetClockGranularity makes the logical clock of all stores advance only on every g-th
// reading (g <= 1: on every reading, the default).
func SetClockGranularity(g int64) { atomic.StoreInt64(&granularity, g) }

var blockCache = map[int][]byte{}

// Block returns the deterministic 256 KiB block k.
func Block(k int) []byte {
	if b, ok := blockCache[k]; ok {
		return b
	}
	r := rand.New(rand.NewSource(int64(k)*104729 + 7))
	b := make([]byte, CS)
	r.Read(b)
	blockCache[k] = b
	return b
}

// File is one file of the world.
type File struct {
	ID      int
	Blocks  []int
	LastLen int
	Name    string
	Data    []byte
	Root    boson.Address   // manifest reference
	Chunks  map[string]bool // every chunk written for it (32-byte addresses, hex)
	Leaves  []string        // data chunks in file order (hex)
	NonData map[string]bool // Chunks minus Leaves
}

func (f *File) String() string {
	return fmt.Sprintf("f%d%v/%d", f.ID, f.Blocks, f.LastLen)
}

// Desc is a JSON-able description.
func (f *File) Desc() map[string]interface{} {
	root := f.Root.String()
	if len(root) > 12 {
		root = root[:12]
	}
	return map[string]interface{}{"id": f.ID, "name": f.Name, "blocks": f.Blocks, "last_len": f.LastLen, "root": root, "chunks": len(f.Chunks)}
}

// World is source node + node under test + files.
type World struct {
	Src       *mininode.Node
	N         *mininode.Node
	Files     []*File
	byKey     map[string]*File
	seq       int
	opts      mininode.Options
	fault     *vdb.Fault
	faultName string
}

// NewWorld builds the two nodes. capacity is the localstore capacity of the node under test.
func NewWorld(capacity uint64, nodeOpts ...func(*mininode.Options)) (*World, error) {
	// one source node per process: it only serves files, and nodes are never garbage
	// collected (their background goroutines keep them alive), so a source per world leaks
	if sharedSrc == nil {
		s, err := mininode.New(mininode.Options{Name: "source", Driver: vdb.Small})
		if err != nil {
			return nil, err
		}
		sharedSrc = s
	}
	src := sharedSrc
	o := mininode.Options{Name: "undertest", Capacity: capacity, Driver: vdb.Small}
	for _, f := range nodeOpts {
		f(&o)
	}
	n, err := mininode.New(o)
	if err != nil {
		return nil, err
	}
	mininode.ConnectReplacing(src, n)
	return &World{Src: src, N: n, byKey: map[string]*File{}, opts: o}, nil
}

// Close closes the node under test (the source node is shared by all worlds of the process).
func (w *World) Close() {
	w.N.Close()
}

var (
	sharedSrc *mininode.Node
	fileCache = map[string]*File{} // process-wide: content key -> file (chunk sets are world independent)
)

// NewFile defines a file (blocks from the pool, last block cut to lastLen), learns its
// chunk set from a fresh throw-away node, and uploads it to the source node.
func (w *World) NewFile(blocks []int, lastLen int) (*File, error) {
	key := fmt.Sprintf("%v/%d", blocks, lastLen)
	if f, ok := w.byKey[key]; ok {
		return f, nil
	}
	var buf bytes.Buffer
	for i, b := range blocks {
		n := CS
		if i == len(blocks)-1 {
			n = lastLen
		}
		buf.Write(Block(b)[:n])
	}
	if cf, ok := fileCache[key]; ok {
		f := *cf
		f.ID = len(w.Files)
		w.Files = append(w.Files, &f)
		w.byKey[key] = &f
		return &f, nil
	}
	f := &File{ID: len(w.Files), Blocks: blocks, LastLen: lastLen, Data: buf.Bytes(), Chunks: map[string]bool{}, NonData: map[string]bool{}}
	f.Name = "f-" + strings.NewReplacer("[", "", "]", "", " ", "-").Replace(fmt.Sprint(blocks)) + fmt.Sprintf("-%d.bin", lastLen)
	tmp, err := mininode.New(mininode.Options{Name: "tmp", Driver: vdb.Small})
	if err != nil {
		return nil, err
	}
	root, err := tmp.Upload(f.Data, f.Name, false, false)
	if err != nil {
		tmp.Close()
		return nil, err
	}
	st, err := tmp.Store.VerifDump()
	tmp.Close()
	if err != nil {
		return nil, err
	}
	f.Root = root
	for _, it := range st.RetrievalData {
		f.Chunks[fmt.Sprintf("%x", it.Address)] = true
	}
	for off := 0; off < len(f.Data); off += CS {
		end := off + CS
		if end > len(f.Data) {
			end = len(f.Data)
		}
		f.Leaves = append(f.Leaves, fmt.Sprintf("%x", spec.BMT(spec.Span(uint64(end-off)), f.Data[off:end])))
	}
	leafSet := map[string]bool{}
	for _, l := range f.Leaves {
		leafSet[l] = true
		if !f.Chunks[l] {
			return nil, fmt.Errorf("fsim: independently hashed leaf %s not among the chunks the upload wrote", l[:12])
		}
	}
	for c := range f.Chunks {
		if !leafSet[c] {
			f.NonData[c] = true
		}
	}
	r2, err := w.Src.Upload(f.Data, f.Name, false, false)
	if err != nil {
		return nil, err
	}
	if !r2.Equal(root) {
		return nil, fmt.Errorf("fsim: upload of the same file gave different references")
	}
	w.Files = append(w.Files, f)
	w.byKey[key] = f
	fileCache[key] = f
	return f, nil
}

// Upload stores f on the node under test by local upload (optionally pinned at upload).
func (w *World) Upload(f *File, pin bool) error {
	r, err := w.N.Upload(f.Data, f.Name, pin, false)
	if err != nil {
		return err
	}
	if !r.Equal(f.Root) {
		return fmt.Errorf("fsim: upload reference differs")
	}
	return nil
}

// CacheFull makes the node under test retrieve the whole file from the source through the
// HTTP download path (chunkinfo.Init -> pyramid exchange -> joiner over netstore).
func (w *World) CacheFull(f *File) error {
	w.N.Chain.SetSources(f.Root, w.Src.Addr)
	got, code := w.N.Download(f.Root, "")
	if code != 200 {
		return fmt.Errorf("fsim: download status %d", code)
	}
	if !bytes.Equal(got, f.Data) {
		return fmt.Errorf("fsim: downloaded bytes differ")
	}
	return nil
}

// CacheChunks retrieves the given data chunks (indices into f.Leaves) the way retrieval does
// for a chunk requested under the file's root context: report the source (which fetches and
// stores the pyramid first if the file is unknown), then cache the chunk.
func (w *World) CacheChunks(f *File, idx []int) error {
	ctx := sctx.SetRootHash(context.Background(), f.Root)
	for _, i := range idx {
		addr := boson.MustParseHexAddress(f.Leaves[i])
		if _, err := w.N.NS.Get(ctx, storage.ModeGetRequest, addr); err != nil {
			return fmt.Errorf("fsim: cache chunk %d of %s: %w", i, f, err)
		}
	}
	return nil
}

// State is a snapshot of the node under test's indexes keyed by hex address.
type State struct {
	Present map[string]bool
	Pins    map[string]uint64
	GC      map[string]uint64 // file root -> cached-chunk count
	Access  map[string]bool
	GCSize  uint64
	SumGC   uint64
	Cap     uint64
	Target  uint64
}

// Dump waits for background access updates and copies the indexes.
func Dump(n *mininode.Node) (*State, error) {
	n.Store.VerifWaitUpdateGC()
	s, err := n.Store.VerifDump()
	if err != nil {
		return nil, err
	}
	st := &State{Present: map[string]bool{}, Pins: map[string]uint64{}, GC: map[string]uint64{}, Access: map[string]bool{}, GCSize: s.GCSize, Cap: s.Capacity, Target: s.GCTarget}
	for _, it := range s.RetrievalData {
		st.Present[fmt.Sprintf("%x", it.Address)] = true
	}
	for _, it := range s.Pin {
		st.Pins[fmt.Sprintf("%x", it.Address)] = it.PinCounter
	}
	for _, it := range s.GC {
		st.GC[fmt.Sprintf("%x", it.Address)] += it.GCounter
		st.SumGC += it.GCounter
	}
	for _, it := range s.RetrievalAccess {
		st.Access[fmt.Sprintf("%x", it.Address)] = true
	}
	return st, nil
}

// Short renders a state compactly with file names for known roots.
func (w *World) Short(s *State) string {
	name := func(h string) string {
		for _, f := range w.Files {
			if f.Root.String() == h {
				return fmt.Sprintf("f%d", f.ID)
			}
		}
		return h[:8]
	}
	var gc []string
	for k, v := range s.GC {
		gc = append(gc, fmt.Sprintf("%s:%d", name(k), v))
	}
	sort.Strings(gc)
	npin := 0
	for range s.Pins {
		npin++
	}
	return fmt.Sprintf("chunks=%d pinned=%d gc=%v gcSize=%d sum=%d cap=%d", len(s.Present), npin, gc, s.GCSize, s.SumGC, s.Cap)
}

// Complete reports whether every chunk of f is present in s.
func (f *File) Complete(s *State) bool {
	for c := range f.Chunks {
		if !s.Present[c] {
			return false
		}
	}
	return true
}

// Collect runs collection rounds until one reports done (at most max rounds) and returns
// the number of rounds, whether it ended done, and the total count the store reported.
func Collect(n *mininode.Node, max int) (rounds int, done bool, collected uint64, err error) {
	for rounds < max {
		rounds++
		c, d, e := n.Store.VerifCollectGarbage()
		collected += c
		if e != nil {
			return rounds, false, collected, e
		}
		if d {
			return rounds, true, collected, nil
		}
	}
	return rounds, false, collected, nil
}

// EntryRef is the file reference the manifest of f maps its path to (read from the node's
// local store).
func (w *World) EntryRef(f *File) (boson.Address, error) {
	ls := loadsave.NewReadonly(w.N.Store, storage.ModeGetLookup)
	m, err := manifest.NewDefaultManifestReference(f.Root, ls)
	if err != nil {
		return boson.ZeroAddress, err
	}
	e, err := m.Lookup(context.Background(), f.Name)
	if err != nil {
		return boson.ZeroAddress, err
	}
	return e.Reference(), nil
}

// ReadLocal reads the file content from the local store only (no network, lookup mode: no
// index is touched) through the manifest and the joiner, and compares with the content.
func (w *World) ReadLocal(f *File) error {
	ctx := context.Background()
	ls := loadsave.NewReadonly(w.N.Store, storage.ModeGetLookup)
	m, err := manifest.NewDefaultManifestReference(f.Root, ls)
	if err != nil {
		return err
	}
	e, err := m.Lookup(ctx, f.Name)
	if err != nil {
		return fmt.Errorf("manifest lookup: %w", err)
	}
	got, err := w.N.ReadLocal(e.Reference())
	if err != nil {
		return fmt.Errorf("join: %w", err)
	}
	if !bytes.Equal(got, f.Data) {
		return fmt.Errorf("content differs (%d vs %d bytes)", len(got), len(f.Data))
	}
	return nil
}

var restartSeq int

// NewRestartableWorld is NewWorld with the node under test on the snapshot-capable driver,
// so that Restart can bring up a new node on a copy of its key-value content and on the same
// state store.
func NewRestartableWorld(capacity uint64) (*World, error) {
	restartSeq++
	name := fmt.Sprintf("fsim-restartable-%d", restartSeq)
	f := vdb.NewFault(name, nil)
	w, err := NewWorld(capacity, func(o *mininode.Options) {
		o.Driver = vdb.CrashName + ":" + vdb.SmallCfg
		o.Path = name
	})
	if err != nil {
		return nil, err
	}
	w.fault, w.faultName = f, name
	return w, nil
}

// Restart stops the node under test and starts a new one over a copy of its local store
// content and the same state store (chunkinfo reloads its tables from it), reconnected to
// the source node.
func (w *World) Restart() error { return w.restart(false) }

// RestartWithEmptyStore is Restart for a node that lost its chunk database but kept its
// state store (the two live in different directories of a real node).
func (w *World) RestartWithEmptyStore() error { return w.restart(true) }

func (w *World) restart(loseStore bool) error {
	if w.fault == nil {
		return fmt.Errorf("fsim: world is not restartable")
	}
	w.N.Store.VerifWaitUpdateGC()
	snap := w.fault.Snapshot()
	if loseStore {
		snap = nil
	}
	state := w.N.State
	w.N.Close()
	vdb.DropFault(w.faultName)
	restartSeq++
	name := fmt.Sprintf("fsim-restartable-%d", restartSeq)
	f := vdb.NewFault(name, snap)
	o := w.opts
	o.Driver = vdb.CrashName + ":" + vdb.SmallCfg
	o.Path = name
	o.State = state
	n, err := mininode.New(o)
	if err != nil {
		return err
	}
	mininode.ConnectReplacing(w.Src, n)
	w.N, w.fault, w.faultName = n, f, name
	return nil
}

// ParkedCollect runs one collection run of n's store in a goroutine, parks it at a point
// inside the run, performs during() and resumes. point "selected": between candidate
// selection and eviction (the existing testHookGCIteratorDone point); point "candidate":
// before the first candidate file is handed to chunkinfo for eviction (verifhook point
// localstore.gc.candidate). It reports whether the run got as far as the parking point.
// fail is called (test becomes inconclusive) when the run does not move within 120 s.
// LastParkedCollected / LastParkedErr: what the run of the last ParkedCollect returned (valid
// once ParkedCollect has returned).
var (
	LastParkedCollected uint64
	LastParkedErr       error
)

func ParkedCollect(n *mininode.Node, point string, during func(), fail func(string)) (parked bool) {
	reached := make(chan struct{})
	release := make(chan struct{})
	var once int32
	park := func() {
		if !atomic.CompareAndSwapInt32(&once, 0, 1) {
			return
		}
		close(reached)
		<-release
	}
	if point == "delfile" {
		// the moment the first candidate is handed to chunkinfo for deletion
		n.SetBeforeDelFile(func(boson.Address) { park() })
		defer n.SetBeforeDelFile(nil)
	} else if point == "candidate" {
		verifhook.Set("localstore.gc.candidate", func(interface{}) { park() })
		defer verifhook.Set("localstore.gc.candidate", nil)
	} else {
		localstore.VerifSetGCIteratorDone(park)
		defer localstore.VerifSetGCIteratorDone(nil)
	}
	done := make(chan struct{})
	go func() {
		defer close(done)
		c, _, e := n.Store.VerifCollectGarbage()
		LastParkedCollected, LastParkedErr = c, e
	}()
	select {
	case <-reached:
		parked = true
		during()
		close(release)
	case <-done:
		return false
	case <-time.After(120 * time.Second):
		fail("collection run neither reached the parking point nor returned within 120 s")
		return false
	}
	select {
	case <-done:
	case <-time.After(120 * time.Second):
		fail("parked collection run did not finish within 120 s after release")
	}
	return parked
}
