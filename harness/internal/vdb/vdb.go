// Package vdb registers the real shed leveldb driver under harness-owned names (the
// repository only registers drivers under build tags the baseline does not set) and
// provides a fault-injecting wrapper around it: it counts driver writes
// (Put / Delete / Batch.Commit), can make write k and every later write vanish
// ("the process stopped before this write"), and can snapshot / restore the whole
// key-value content so that an operation can be re-run from the same state.
package vdb

import (
	"errors"
	"sort"
	"sync"

	"github.com/gauss-project/aurorafs/pkg/shed"
	"github.com/gauss-project/aurorafs/pkg/shed/driver"
	"github.com/gauss-project/aurorafs/pkg/shed/leveldb"
)

const (
	// Name of the plain real leveldb driver.
	Name = "vldb"
	// CrashName of the fault-injecting driver. Open(path): path selects a named Fault
	// controller registered with NewFault.
	CrashName = "vcrash"
)

var regOnce sync.Once

// Register registers both drivers (idempotent).
func Register() {
	regOnce.Do(func() {
		shed.Register(Name, leveldb.Driver{})
		shed.Register(CrashName, crashDriver{})
	})
}

// Small is the plain driver with small leveldb buffers (the defaults reserve 64 MiB per
// database, too much for thousands of short-lived stores in one process).
const Small = Name + `:{"WriteBuffer":2097152,"BlockCacheCapacity":1048576}`

// SmallCfg is the same configuration string for the fault-injecting driver.
const SmallCfg = `{"WriteBuffer":2097152,"BlockCacheCapacity":1048576}`

// Opts returns shed options selecting the plain driver.
func Opts() *shed.Options { Register(); return &shed.Options{Driver: Name} }

// ErrCrashed is returned by every write at or after the crash point.
var ErrCrashed = errors.New("vdb: injected crash: write did not reach storage")

// KV is one key-value pair of a snapshot.
type KV struct{ K, V []byte }

// Fault controls one fault-injecting database instance.
type Fault struct {
	mu       sync.Mutex
	inner    driver.BatchDB
	writes   int  // driver writes performed (or refused) since ResetCount
	crashAt  int  // -1: never; k: the write with index k (0-based since ResetCount) and all later ones vanish
	crashed  bool // a write was refused
	initial  []KV // content to load on open
	WriteLog []string
}

var (
	faultsMu sync.Mutex
	faults   = map[string]*Fault{}
)

// NewFault registers a controller under name; localstore.New(name, ..., Driver: CrashName)
// then opens an in-memory leveldb pre-loaded with initial.
func NewFault(name string, initial []KV) *Fault {
	Register()
	f := &Fault{crashAt: -1, initial: initial}
	faultsMu.Lock()
	faults[name] = f
	faultsMu.Unlock()
	return f
}

// DropFault forgets the controller.
func DropFault(name string) {
	faultsMu.Lock()
	delete(faults, name)
	faultsMu.Unlock()
}

type crashDriver struct{}

func (crashDriver) Open(path, options string) (driver.DB, error) {
	faultsMu.Lock()
	f := faults[path]
	faultsMu.Unlock()
	if f == nil {
		return nil, errors.New("vdb: no Fault registered for " + path)
	}
	db, err := leveldb.Driver{}.Open("", options)
	if err != nil {
		return nil, err
	}
	bdb := db.(driver.BatchDB)
	if len(f.initial) > 0 {
		b := bdb.NewBatch()
		for _, kv := range f.initial {
			b.Put(driver.Key{Data: kv.K}, driver.Value{Data: kv.V})
		}
		if err := b.Commit(); err != nil {
			return nil, err
		}
	}
	f.mu.Lock()
	f.inner = bdb
	f.mu.Unlock()
	return &crashDB{BatchDB: bdb, f: f}, nil
}

// ResetCount zeroes the write counter and arms a crash at write index k (-1: none).
func (f *Fault) ResetCount(crashAt int) {
	f.mu.Lock()
	f.writes = 0
	f.crashAt = crashAt
	f.crashed = false
	f.WriteLog = nil
	f.mu.Unlock()
}

// Writes is the number of driver writes attempted since ResetCount.
func (f *Fault) Writes() int { f.mu.Lock(); defer f.mu.Unlock(); return f.writes }

// Crashed reports whether a write was refused.
func (f *Fault) Crashed() bool { f.mu.Lock(); defer f.mu.Unlock(); return f.crashed }

// allow is called before each driver write; false means the write must vanish.
func (f *Fault) allow(kind string) bool {
	f.mu.Lock()
	defer f.mu.Unlock()
	i := f.writes
	f.writes++
	f.WriteLog = append(f.WriteLog, kind)
	if f.crashAt >= 0 && i >= f.crashAt {
		f.crashed = true
		return false
	}
	return true
}

// Snapshot returns the whole key-value content (sorted by key).
func (f *Fault) Snapshot() []KV {
	f.mu.Lock()
	db := f.inner
	f.mu.Unlock()
	var out []KV
	c := db.Search(driver.Query{})
	defer c.Close()
	for ok := c.Valid(); ok; ok = c.Next() {
		out = append(out, KV{K: append([]byte(nil), c.Key()...), V: append([]byte(nil), c.Value()...)})
	}
	sort.Slice(out, func(i, j int) bool { return string(out[i].K) < string(out[j].K) })
	return out
}

type crashDB struct {
	driver.BatchDB
	f *Fault
}

func (c *crashDB) Put(k driver.Key, v driver.Value) error {
	if !c.f.allow("put") {
		return ErrCrashed
	}
	return c.BatchDB.Put(k, v)
}

func (c *crashDB) Delete(k driver.Key) error {
	if !c.f.allow("delete") {
		return ErrCrashed
	}
	return c.BatchDB.Delete(k)
}

func (c *crashDB) NewBatch() driver.Batching {
	return &crashBatch{Batching: c.BatchDB.NewBatch(), f: c.f}
}

type crashBatch struct {
	driver.Batching
	f *Fault
	n int
}

func (b *crashBatch) Put(k driver.Key, v driver.Value) error { b.n++; return b.Batching.Put(k, v) }
func (b *crashBatch) Delete(k driver.Key) error              { b.n++; return b.Batching.Delete(k) }

func (b *crashBatch) Commit() error {
	if !b.f.allow("commit") {
		return ErrCrashed
	}
	return b.Batching.Commit()
}
