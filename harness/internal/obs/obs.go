// Package obs is the observation side of every property check: a child test process
// uses it to announce cases before running them, to record violations with a finding
// key and witness, and to count what the monitors saw. Records go to a JSONL file
// (VERIF_OBS) with one write per record, so they survive a crash of the child.
package obs

import (
	"crypto/sha256"
	"encoding/binary"
	"encoding/json"
	"fmt"
	"math/rand"
	"os"
	"sort"
	"strconv"
	"strings"
	"sync"
	"testing"
	"time"
)

// Record is one JSONL line.
type Record struct {
	T       string      `json:"t"` // meta | begin | end | viol | stat | sample | done | tally
	Prop    string      `json:"prop,omitempty"`
	Case    string      `json:"case,omitempty"`
	Shape   string      `json:"shape,omitempty"`
	NonTriv bool        `json:"nontriv,omitempty"`
	Key     string      `json:"key,omitempty"`
	Msg     string      `json:"msg,omitempty"`
	Witness interface{} `json:"witness,omitempty"`
	Name    string      `json:"name,omitempty"`
	N       int64       `json:"n,omitempty"`
	Rule    string      `json:"rule,omitempty"`
	Assume  []string    `json:"assume,omitempty"`
	Data    interface{} `json:"data,omitempty"`
	Seed    int64       `json:"seed,omitempty"`
	Tier    string      `json:"tier,omitempty"`
	Test    string      `json:"test,omitempty"`
	Tallies map[string]int64 `json:"tallies,omitempty"`
}

// Run is the per-test observation context.
type Run struct {
	t     testing.TB
	prop  string
	seed  int64
	tier  string
	only  map[string]bool
	skip  map[string]bool
	f     *os.File
	mu    sync.Mutex
	stats map[string]int64
	// tallies of light-weight cases that are not announced one by one
	tally        map[string]int64 // shape -> count (non-trivial)
	tallyTrivial int64
	samples      int
	maxSamples   int
	viols        map[string]int
	start        time.Time
}

var (
	fileMu   sync.Mutex
	obsFile  *os.File
	openOnce sync.Once
)

func openObs() *os.File {
	openOnce.Do(func() {
		p := os.Getenv("VERIF_OBS")
		if p == "" {
			p = os.DevNull
		}
		f, err := os.OpenFile(p, os.O_APPEND|os.O_CREATE|os.O_WRONLY, 0o644)
		if err != nil {
			panic(err)
		}
		obsFile = f
	})
	return obsFile
}

// Start opens the observation context of one test function for property prop.
func Start(t testing.TB, prop string) *Run {
	seed := int64(1)
	if s := os.Getenv("VERIF_SEED"); s != "" {
		if v, err := strconv.ParseInt(s, 10, 64); err == nil {
			seed = v
		}
	}
	tier := os.Getenv("VERIF_TIER")
	if tier != "thorough" {
		tier = "quick"
	}
	r := &Run{t: t, prop: prop, seed: seed, tier: tier, f: openObs(),
		stats: map[string]int64{}, tally: map[string]int64{}, viols: map[string]int{},
		maxSamples: 6, start: time.Now()}
	if s := os.Getenv("VERIF_ONLY"); s != "" {
		r.only = map[string]bool{}
		for _, c := range strings.Split(s, ",") {
			r.only[c] = true
		}
	}
	if s := os.Getenv("VERIF_SKIP"); s != "" {
		r.skip = map[string]bool{}
		for _, c := range strings.Split(s, ",") {
			r.skip[c] = true
		}
	}
	r.emit(Record{T: "meta", Prop: prop, Seed: seed, Tier: tier, Test: t.Name()})
	return r
}

func (r *Run) emit(rec Record) {
	rec.Prop = r.prop
	b, err := json.Marshal(rec)
	if err != nil {
		b, _ = json.Marshal(Record{T: rec.T, Prop: r.prop, Case: rec.Case, Key: rec.Key, Msg: rec.Msg + " (witness not serialisable: " + err.Error() + ")"})
	}
	b = append(b, '\n')
	fileMu.Lock()
	r.f.Write(b)
	fileMu.Unlock()
}

// Seed is the VERIF_SEED of this run (default 1).
func (r *Run) Seed() int64 { return r.seed }

// Thorough reports whether the thorough tier was asked for.
func (r *Run) Thorough() bool { return r.tier == "thorough" }

// N picks the case count for the tier.
func (r *Run) N(quick, thorough int) int {
	if r.Thorough() {
		return thorough
	}
	return quick
}

// Rule states how cases are generated and what makes one distinct / non-trivial.
func (r *Run) Rule(rule string, assumptions ...string) {
	r.emit(Record{T: "meta", Rule: rule, Assume: assumptions, Test: r.t.Name()})
}

// RandFor returns a PRNG determined by (seed, name) only.
func (r *Run) RandFor(name string) *rand.Rand {
	h := sha256.Sum256([]byte(fmt.Sprintf("%s/%d/%s", r.prop, r.seed, name)))
	return rand.New(rand.NewSource(int64(binary.LittleEndian.Uint64(h[:8]))))
}

// Case is one announced case.
type Case struct {
	r     *Run
	id    string
	ended bool
	descr interface{}
}

// Begin announces a case before it runs (so a crash can be attributed) and returns
// nil when the case is filtered out by VERIF_ONLY / VERIF_SKIP.
func (r *Run) Begin(id string, descr interface{}) *Case {
	id = r.t.Name() + "/" + id
	if r.only != nil && !r.only[id] {
		return nil
	}
	if r.skip != nil && r.skip[id] {
		return nil
	}
	r.emit(Record{T: "begin", Case: id, Data: descr})
	return &Case{r: r, id: id, descr: descr}
}

// ID is the fully qualified case id (test name + case name).
func (c *Case) ID() string { return c.id }

// Rand is the PRNG of this case: a function of (seed, case id) only, so the case can
// be re-run alone.
func (c *Case) Rand() *rand.Rand { return c.r.RandFor(c.id) }

// End closes the case with its shape key (used to count distinct cases) and whether it
// was non-trivial by the test's stated rule.
func (c *Case) End(shape string, nontrivial bool) {
	if c.ended {
		return
	}
	c.ended = true
	c.r.emit(Record{T: "end", Case: c.id, Shape: shape, NonTriv: nontrivial})
}

// Viol records a violation observed in this case.
func (c *Case) Viol(key, msg string, witness interface{}) {
	c.r.viol(c.id, key, msg, witness)
}

// Violf is Viol with a formatted message and the case description as witness.
func (c *Case) Violf(key, format string, a ...interface{}) {
	c.r.viol(c.id, key, fmt.Sprintf(format, a...), c.descr)
}

func (r *Run) viol(caseID, key, msg string, witness interface{}) {
	r.mu.Lock()
	r.viols[key]++
	n := r.viols[key]
	r.mu.Unlock()
	if n > 5 { // keep the log small: first five witnesses per key, then counts
		r.Stat("viol_more/"+key, 1)
		return
	}
	r.emit(Record{T: "viol", Case: caseID, Key: key, Msg: msg, Witness: witness, Seed: r.seed, Tier: r.tier})
}

// Viol records a violation outside an announced case.
func (r *Run) Viol(key, msg string, witness interface{}) { r.viol("", key, msg, witness) }

// Stat adds to a named monitor counter (events observed, interleavings seen ...).
func (r *Run) Stat(name string, delta int64) {
	r.mu.Lock()
	r.stats[name] += delta
	r.mu.Unlock()
}

// StatMax keeps the maximum of a named gauge.
func (r *Run) StatMax(name string, v int64) {
	r.mu.Lock()
	if v > r.stats[name] {
		r.stats[name] = v
	}
	r.mu.Unlock()
}

// Tally counts one light-weight case (not announced individually). shape "" or
// nontrivial=false counts as trivial.
func (r *Run) Tally(shape string, nontrivial bool) {
	r.mu.Lock()
	if nontrivial && shape != "" {
		r.tally[shape]++
	} else {
		r.tallyTrivial++
	}
	r.mu.Unlock()
}

// Sample writes out an actual case for the evidence file (first few only).
func (r *Run) Sample(v interface{}) {
	r.mu.Lock()
	r.samples++
	n := r.samples
	r.mu.Unlock()
	if n > r.maxSamples {
		return
	}
	r.emit(Record{T: "sample", Data: v})
}

// Done flushes counters. Call it (deferred) at the end of the test function.
func (r *Run) Done() {
	r.mu.Lock()
	names := make([]string, 0, len(r.stats))
	for k := range r.stats {
		names = append(names, k)
	}
	sort.Strings(names)
	stats := make(map[string]int64, len(r.stats))
	for _, k := range names {
		stats[k] = r.stats[k]
	}
	tallies := map[string]int64{}
	// cap the number of distinct shapes written out; keep the count exact
	distinct := int64(len(r.tally))
	var total int64
	i := 0
	for k, v := range r.tally {
		total += v
		if i < 2000 {
			tallies[k] = v
		}
		i++
	}
	trivial := r.tallyTrivial
	r.mu.Unlock()
	if total+trivial > 0 {
		r.emit(Record{T: "tally", Tallies: tallies, N: total + trivial, Data: map[string]int64{"distinct": distinct, "nontrivial": total, "trivial": trivial}, Test: r.t.Name()})
	}
	r.emit(Record{T: "stat", Tallies: stats, Test: r.t.Name()})
	r.emit(Record{T: "done", Test: r.t.Name(), N: int64(time.Since(r.start) / time.Millisecond)})
}

// Hex shortens a byte slice for witnesses.
func Hex(b []byte) string {
	const max = 48
	if len(b) <= max {
		return fmt.Sprintf("%x", b)
	}
	return fmt.Sprintf("%x..(%d bytes)", b[:max], len(b))
}
