package pbench

import (
	"context"
	"crypto/ecdsa"
	"fmt"
	"sync"

	"github.com/gauss-project/aurorafs/pkg/addressbook"
	"github.com/gauss-project/aurorafs/pkg/aurora"
	"github.com/gauss-project/aurorafs/pkg/boson"
	"github.com/gauss-project/aurorafs/pkg/crypto"
	"github.com/gauss-project/aurorafs/pkg/p2p"
	"github.com/gauss-project/aurorafs/pkg/shed"
	"github.com/gauss-project/aurorafs/pkg/subscribe"
	"github.com/gauss-project/aurorafs/pkg/topology/kademlia"
	"github.com/gauss-project/aurorafs/pkg/topology/lightnode"
	ma "github.com/multiformats/go-multiaddr"
	"verif/harness/internal/vdb"
)

// Identity is a node identity with a signed address record.
type Identity struct {
	Key     *ecdsa.PrivateKey
	Signer  crypto.Signer
	Overlay boson.Address
	Addr    *aurora.Address
}

// NewIdentity makes a fresh identity (random key; the overlay is derived from it the way
// the node does) with the given underlay.
func NewIdentity(networkID uint64, underlay string) *Identity {
	k, err := crypto.GenerateSecp256k1Key()
	if err != nil {
		panic(err)
	}
	signer := crypto.NewDefaultSigner(k)
	ov, err := crypto.NewOverlayAddress(k.PublicKey, networkID)
	if err != nil {
		panic(err)
	}
	u, err := ma.NewMultiaddr(underlay)
	if err != nil {
		panic(err)
	}
	a, err := aurora.NewAddress(signer, u, ov, networkID)
	if err != nil {
		panic(err)
	}
	return &Identity{Key: k, Signer: signer, Overlay: ov, Addr: a}
}

// Kad bundles a real kademlia with its collaborators.
type Kad struct {
	Kad   *kademlia.Kad
	Book  addressbook.Interface
	Light *lightnode.Container
	P2P   *P2P
	db    *shed.DB
}

// NewKad builds a real (not started) kademlia for base and marks peers as connected.
func NewKad(base boson.Address, peers ...*Identity) (*Kad, error) {
	db, err := metricsDB()
	if err != nil {
		return nil, fmt.Errorf("metrics db: %w", err)
	}
	book := addressbook.New(StateStore())
	p := NewP2P()
	light := lightnode.NewContainer(base)
	k, err := kademlia.New(base, book, Discovery{}, p, Pinger{}, light, nil, db, Log(), subscribe.NewSubPub(),
		kademlia.Options{BinMaxPeers: 20, NodeMode: aurora.NewModel().SetMode(aurora.FullNode)})
	if err != nil {
		return nil, err
	}
	for _, id := range peers {
		if err := book.Put(id.Overlay, *id.Addr); err != nil {
			return nil, err
		}
		if err := k.Connected(context.Background(), p2p.Peer{Address: id.Overlay, Mode: aurora.NewModel().SetMode(aurora.FullNode)}, true); err != nil {
			return nil, err
		}
	}
	return &Kad{Kad: k, Book: book, Light: light, P2P: p, db: db}, nil
}

// Close releases the kademlia in the background: a kademlia whose manage loop was never
// started takes 5 s to close.
func (k *Kad) Close() {
	go func() { _ = k.Kad.Close() }()
}

var (
	mdbOnce sync.Once
	mdb     *shed.DB
	mdbErr  error
)

// metricsDB is one in-memory shed DB shared by every kademlia of the process (peer
// metrics only; never closed).
func metricsDB() (*shed.DB, error) {
	mdbOnce.Do(func() {
		vdb.Register()
		mdb, mdbErr = shed.NewDB("", vdb.Opts())
	})
	return mdb, mdbErr
}
