// Package pbench is the protocol bench of DESIGN §5: an in-memory p2p.Stream preloaded
// with the remote peer's bytes, a scripted p2p.Streamer that answers the service's own
// client calls with such streams, framing helpers for hostile input, a panic guard that
// names the panic site, and stub collaborators (route table, accounting, chunk info,
// chain, traversal, stores) so that every real protocol service can be constructed
// without a libp2p host.
package pbench

import (
	"context"
	"errors"
	"io"
	"sync"
	"time"

	"github.com/gauss-project/aurorafs/pkg/boson"
	"github.com/gauss-project/aurorafs/pkg/p2p"
	ma "github.com/multiformats/go-multiaddr"
)

// Stream is a p2p.Stream whose read side is a fixed byte string (what the remote peer
// sent, in order) followed by EOF, and whose write side is recorded. Nothing blocks.
type Stream struct {
	mu      sync.Mutex
	in      []byte
	off     int
	out     []byte
	closed  bool
	reset   bool
	hdr     p2p.Headers
	MaxRead int // if > 0, Read returns at most this many bytes per call (fragmented delivery)
	// OnFirstRead, if set, is called once at the first Read with everything written so
	// far (the service's request) and returns the peer's bytes.
	OnFirstRead func(written []byte) []byte
}

// NewStream returns a stream that will deliver in and then io.EOF.
func NewStream(in []byte) *Stream { return &Stream{in: in, hdr: p2p.Headers{}} }

func (s *Stream) Read(p []byte) (int, error) {
	s.mu.Lock()
	defer s.mu.Unlock()
	if s.reset {
		return 0, errors.New("stream reset")
	}
	if s.OnFirstRead != nil {
		f := s.OnFirstRead
		s.OnFirstRead = nil
		s.in = f(append([]byte(nil), s.out...))
		s.off = 0
	}
	if s.off >= len(s.in) {
		return 0, io.EOF
	}
	n := len(p)
	if s.MaxRead > 0 && n > s.MaxRead {
		n = s.MaxRead
	}
	n = copy(p[:n], s.in[s.off:])
	s.off += n
	return n, nil
}

func (s *Stream) Write(p []byte) (int, error) {
	s.mu.Lock()
	defer s.mu.Unlock()
	if s.closed || s.reset {
		return 0, errors.New("stream closed")
	}
	if len(s.out) < 8<<20 {
		s.out = append(s.out, p...)
	}
	return len(p), nil
}

func (s *Stream) Close() error {
	s.mu.Lock()
	s.closed = true
	s.mu.Unlock()
	return nil
}
func (s *Stream) FullClose() error { return s.Close() }
func (s *Stream) Reset() error {
	s.mu.Lock()
	s.reset = true
	s.mu.Unlock()
	return nil
}
func (s *Stream) Headers() p2p.Headers         { return s.hdr }
func (s *Stream) ResponseHeaders() p2p.Headers { return s.hdr }

// Written returns what the service wrote to the stream.
func (s *Stream) Written() []byte {
	s.mu.Lock()
	defer s.mu.Unlock()
	return append([]byte(nil), s.out...)
}

// Consumed reports how many of the preloaded bytes were read.
func (s *Stream) Consumed() int {
	s.mu.Lock()
	defer s.mu.Unlock()
	return s.off
}

// WasReset reports whether the service reset the stream.
func (s *Stream) WasReset() bool {
	s.mu.Lock()
	defer s.mu.Unlock()
	return s.reset
}

// Call is one client-side stream the service opened.
type Call struct {
	Peer     boson.Address
	Protocol string
	Stream   string
	S        *Stream
}

// Streamer is a scripted p2p.Streamer (also Pinger and Disconnecter): every NewStream is
// answered by Reply, which returns the bytes the remote peer will send on that stream
// (nil, err => the stream cannot be opened).
type Streamer struct {
	mu    sync.Mutex
	Reply func(peer boson.Address, protocol, stream string, nth int) ([]byte, error)
	calls []*Call
	count map[string]int
	// Lazy, if set, takes precedence over Reply: the peer's bytes are computed at the
	// first Read from what the service has written (its request) by then.
	Lazy func(peer boson.Address, protocol, stream string, written []byte) []byte
	// PingErr is returned by Ping.
	PingErr error
}

// NewStreamer returns a streamer answering every stream with reply(...).
func NewStreamer(reply func(peer boson.Address, protocol, stream string, nth int) ([]byte, error)) *Streamer {
	return &Streamer{Reply: reply, count: map[string]int{}}
}

// FixedReply answers every stream with the same bytes.
func FixedReply(b []byte) func(boson.Address, string, string, int) ([]byte, error) {
	return func(boson.Address, string, string, int) ([]byte, error) { return b, nil }
}

// NoStream refuses every stream.
func NoStream(boson.Address, string, string, int) ([]byte, error) {
	return nil, errors.New("pbench: no stream")
}

func (s *Streamer) open(peer boson.Address, protocol, stream string) (p2p.Stream, error) {
	s.mu.Lock()
	k := protocol + "/" + stream
	n := s.count[k]
	s.count[k]++
	reply := s.Reply
	lazy := s.Lazy
	s.mu.Unlock()
	if lazy != nil {
		st := NewStream(nil)
		st.OnFirstRead = func(w []byte) []byte { return lazy(peer, protocol, stream, w) }
		s.mu.Lock()
		s.calls = append(s.calls, &Call{Peer: peer, Protocol: protocol, Stream: stream, S: st})
		s.mu.Unlock()
		return st, nil
	}
	if reply == nil {
		return nil, errors.New("pbench: no stream")
	}
	b, err := reply(peer, protocol, stream, n)
	if err != nil {
		return nil, err
	}
	st := NewStream(b)
	s.mu.Lock()
	s.calls = append(s.calls, &Call{Peer: peer, Protocol: protocol, Stream: stream, S: st})
	s.mu.Unlock()
	return st, nil
}

func (s *Streamer) NewStream(_ context.Context, a boson.Address, _ p2p.Headers, protocol, _ string, stream string) (p2p.Stream, error) {
	return s.open(a, protocol, stream)
}
func (s *Streamer) NewRelayStream(_ context.Context, a boson.Address, _ p2p.Headers, protocol, _ string, stream string, _ bool) (p2p.Stream, error) {
	return s.open(a, protocol, stream)
}
func (s *Streamer) NewConnChainRelayStream(_ context.Context, a boson.Address, _ p2p.Headers, protocol, _ string, stream string) (p2p.Stream, error) {
	return s.open(a, protocol, stream)
}
func (s *Streamer) Ping(context.Context, ma.Multiaddr) (time.Duration, error) {
	return time.Millisecond, s.PingErr
}
func (s *Streamer) Disconnect(boson.Address, string) error               { return nil }
func (s *Streamer) Blocklist(boson.Address, time.Duration, string) error { return nil }
func (s *Streamer) NetworkStatus() p2p.NetworkStatus                     { return p2p.NetworkStatusAvailable }

// Calls returns the streams the service opened so far.
func (s *Streamer) Calls() []*Call {
	s.mu.Lock()
	defer s.mu.Unlock()
	return append([]*Call(nil), s.calls...)
}

// NCalls counts opened streams of one protocol stream name ("" = all).
func (s *Streamer) NCalls(stream string) int {
	s.mu.Lock()
	defer s.mu.Unlock()
	n := 0
	for _, c := range s.calls {
		if stream == "" || c.Stream == stream {
			n++
		}
	}
	return n
}

var (
	_ p2p.Stream               = (*Stream)(nil)
	_ p2p.StreamerPinger       = (*Streamer)(nil)
	_ p2p.StreamerDisconnecter = (*Streamer)(nil)
)
