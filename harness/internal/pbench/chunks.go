package pbench

import (
	"crypto/ecdsa"
	"encoding/binary"

	gethcrypto "github.com/ethereum/go-ethereum/crypto"
	"verif/harness/internal/spec"
)

// CAC builds a content-addressed chunk with an arbitrary span field: payload =
// span(8, little endian) || data, address = reference BMT hash (internal/spec, not the
// code under test). data longer than a chunk is hashed the way the reference does
// (bytes past the BMT capacity do not take part), so the result is then NOT a valid
// chunk; callers use that on purpose.
func CAC(span uint64, data []byte) (addr, payload []byte) {
	payload = make([]byte, 8+len(data))
	binary.LittleEndian.PutUint64(payload, span)
	copy(payload[8:], data)
	return spec.BMTFast(payload[:8], data, spec.Branches), payload
}

// Leaf is a data chunk whose span is its length.
func Leaf(data []byte) (addr, payload []byte) { return CAC(uint64(len(data)), data) }

// SOC builds a valid single-owner chunk (id, signature by key over keccak(id||wrapped
// address), wrapped payload) with go-ethereum's secp256k1; returns address and data.
func SOC(key *ecdsa.PrivateKey, id []byte, wrappedSpan uint64, wrappedData []byte) (addr, data []byte) {
	waddr, wpayload := CAC(wrappedSpan, wrappedData)
	digest := spec.EthSignedMessageHash(spec.Keccak256(id, waddr))
	sig, err := gethcrypto.Sign(digest, key)
	if err != nil {
		panic("pbench: sign: " + err.Error())
	}
	sig[64] += 27
	owner := gethcrypto.PubkeyToAddress(key.PublicKey).Bytes()
	data = Cat(id, sig, wpayload)
	return spec.SOCAddress(id, owner), data
}
