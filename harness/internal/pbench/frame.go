package pbench

import (
	"encoding/binary"
	"math/rand"

	"github.com/gogo/protobuf/proto"
)

// MaxFrame is the size limit of the length-delimited reader under test (1 MiB).
const MaxFrame = 1024 * 1024

// FrameBytes prepends the uvarint length.
func FrameBytes(b []byte) []byte {
	var l [binary.MaxVarintLen64]byte
	n := binary.PutUvarint(l[:], uint64(len(b)))
	return append(append([]byte(nil), l[:n]...), b...)
}

// Frame marshals m and frames it (panics on marshal error: harness bug).
func Frame(m proto.Message) []byte {
	b, err := proto.Marshal(m)
	if err != nil {
		panic("pbench: marshal: " + err.Error())
	}
	return FrameBytes(b)
}

// Cat concatenates byte strings.
func Cat(parts ...[]byte) []byte {
	var out []byte
	for _, p := range parts {
		out = append(out, p...)
	}
	return out
}

// PB is a tiny protobuf wire encoder used to build well-framed but ill-typed or
// inconsistent messages field by field (wrong wire types, repeated scalar fields,
// empty nested messages, unknown fields).
type PB struct{ b []byte }

func (p *PB) key(num int, wt int) { p.b = appendUvarint(p.b, uint64(num)<<3|uint64(wt)) }

func appendUvarint(b []byte, v uint64) []byte {
	var l [binary.MaxVarintLen64]byte
	n := binary.PutUvarint(l[:], v)
	return append(b, l[:n]...)
}

// Varint adds field num with wire type 0.
func (p *PB) Varint(num int, v uint64) *PB { p.key(num, 0); p.b = appendUvarint(p.b, v); return p }

// Bytes adds field num with wire type 2.
func (p *PB) Bytes(num int, v []byte) *PB {
	p.key(num, 2)
	p.b = appendUvarint(p.b, uint64(len(v)))
	p.b = append(p.b, v...)
	return p
}

// Msg adds a nested message.
func (p *PB) Msg(num int, m *PB) *PB { return p.Bytes(num, m.b) }

// Fixed64 adds field num with wire type 1.
func (p *PB) Fixed64(num int, v uint64) *PB {
	p.key(num, 1)
	var x [8]byte
	binary.LittleEndian.PutUint64(x[:], v)
	p.b = append(p.b, x[:]...)
	return p
}

// Fixed32 adds field num with wire type 5.
func (p *PB) Fixed32(num int, v uint32) *PB {
	p.key(num, 5)
	var x [4]byte
	binary.LittleEndian.PutUint32(x[:], v)
	p.b = append(p.b, x[:]...)
	return p
}

// MapEntry adds one entry of a map<string,bytes> field.
func (p *PB) MapEntry(num int, k string, v []byte) *PB {
	e := &PB{}
	e.Bytes(1, []byte(k))
	if v != nil {
		e.Bytes(2, v)
	}
	return p.Msg(num, e)
}

// Raw returns the encoded message.
func (p *PB) Raw() []byte { return p.b }

// Framed returns the length-delimited message.
func (p *PB) Framed() []byte { return FrameBytes(p.b) }

// RawHostile is the list of raw (not necessarily well-framed) inputs of class (a):
// name and bytes. rng supplies the random tails; the classes themselves are fixed.
func RawHostile(rng *rand.Rand) []struct {
	Name string
	B    []byte
} {
	rnd := func(n int) []byte { b := make([]byte, n); rng.Read(b); return b }
	type C = struct {
		Name string
		B    []byte
	}
	big := make([]byte, 0, 16)
	big = appendUvarint(big, MaxFrame+1)
	huge := appendUvarint(nil, 1<<40)
	return []C{
		{"raw-empty", nil},
		{"raw-zero-length-frame", []byte{0}},
		{"raw-two-zero-length-frames", []byte{0, 0}},
		{"raw-bad-varint", []byte{0xff, 0xff, 0xff, 0xff, 0xff, 0xff, 0xff, 0xff, 0xff, 0xff, 0xff, 0x01}},
		{"raw-unterminated-varint", []byte{0x80, 0x80}},
		{"raw-length-over-limit", Cat(big, rnd(64))},
		{"raw-length-2^40", Cat(huge, rnd(16))},
		{"raw-truncated-frame", Cat([]byte{100}, rnd(10))},
		{"raw-frame-random-payload", FrameBytes(rnd(1 + rng.Intn(60)))},
		{"raw-frame-random-payload-long", FrameBytes(rnd(200 + rng.Intn(2000)))},
		{"raw-random", rnd(1 + rng.Intn(80))},
		{"raw-frame-ff", FrameBytes([]byte{0xff, 0xff, 0xff, 0xff})},
		{"raw-frame-group-wiretype", FrameBytes([]byte{0x0b, 0x0c, 0x13, 0x14})},
		{"raw-frame-field-zero", FrameBytes([]byte{0x02, 0x01, 0x00})},
		{"raw-frame-nested-length-overrun", FrameBytes([]byte{0x0a, 0x7f, 0x01})},
		{"raw-frame-max-size-zeros", FrameBytes(make([]byte, MaxFrame))},
	}
}

// Mutate returns a byte mutation of a valid framed input (class (c)): flips, truncation,
// insertion, deletion, duplication of a span, overwriting the length prefix.
func Mutate(rng *rand.Rand, valid []byte) (string, []byte) {
	b := append([]byte(nil), valid...)
	if len(b) == 0 {
		return "mut-empty", b
	}
	switch rng.Intn(7) {
	case 0:
		n := 1 + rng.Intn(3)
		for i := 0; i < n; i++ {
			b[rng.Intn(len(b))] ^= 1 << uint(rng.Intn(8))
		}
		return "mut-bitflip", b
	case 1:
		return "mut-truncate", b[:rng.Intn(len(b))]
	case 2:
		i := rng.Intn(len(b) + 1)
		ins := make([]byte, 1+rng.Intn(4))
		rng.Read(ins)
		return "mut-insert", Cat(b[:i], ins, b[i:])
	case 3:
		i := rng.Intn(len(b))
		j := i + 1 + rng.Intn(4)
		if j > len(b) {
			j = len(b)
		}
		return "mut-delete", Cat(b[:i], b[j:])
	case 4:
		i := rng.Intn(len(b))
		j := i + 1 + rng.Intn(16)
		if j > len(b) {
			j = len(b)
		}
		return "mut-dup-span", Cat(b[:j], b[i:j], b[j:])
	case 5:
		i := rng.Intn(len(b))
		b[i] = byte(rng.Intn(256))
		return "mut-byte", b
	default:
		// keep the frame length consistent but corrupt one byte inside the payload and
		// re-frame, so the damage reaches the message decoder / handler rather than
		// the framing layer
		l, n := binary.Uvarint(b)
		if n <= 0 || int(l) > len(b)-n || l == 0 {
			b[0] ^= 0x40
			return "mut-length-prefix", b
		}
		p := append([]byte(nil), b[n:n+int(l)]...)
		switch rng.Intn(3) {
		case 0:
			p[rng.Intn(len(p))] = byte(rng.Intn(256))
		case 1:
			p = p[:rng.Intn(len(p))]
		default:
			i := rng.Intn(len(p))
			p = Cat(p[:i], []byte{byte(rng.Intn(256))}, p[i:])
		}
		return "mut-reframed", Cat(FrameBytes(p), b[n+int(l):])
	}
}

// NamedBytes is a named hostile byte string.
type NamedBytes struct {
	Name string
	B    []byte
}

// Addrs is the ordered list of hostile address-like byte strings: lengths 0, 1, 31, 33,
// 64 and a correct 32-byte one.
func Addrs(rng *rand.Rand) []NamedBytes {
	r := func(n int) []byte { b := make([]byte, n); rng.Read(b); return b }
	return []NamedBytes{{"len0", []byte{}}, {"len1", r(1)}, {"len31", r(31)}, {"len32", r(32)}, {"len33", r(33)}, {"len64", r(64)}}
}
