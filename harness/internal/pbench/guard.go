package pbench

import (
	"fmt"
	"regexp"
	"runtime"
	"strings"
	"time"
)

const repoMod = "github.com/gauss-project/aurorafs/"

// PanicInfo describes a recovered panic.
type PanicInfo struct {
	Value   string   // the panic value
	Site    string   // top function of the repository on the panicking stack, shortened; stable across seeds
	Harness bool     // the panic started in harness code (a stub) or in a library called by harness code: harness bug
	Stack   []string // function names from the panic upwards (trimmed)
}

var closureRE = regexp.MustCompile(`(\.func\d+)+(\.\d+)*$|(\.\d+)+$`)

// ShortFunc turns a runtime function name of the repository into the form used in
// finding keys: "chunkinfo.ChunkInfo.updateQueue".
func ShortFunc(fn string) string {
	fn = strings.TrimPrefix(fn, repoMod)
	fn = strings.TrimPrefix(fn, "pkg/")
	fn = closureRE.ReplaceAllString(fn, "")
	// drop directory part, keep the package's last two path elements for uniqueness
	if i := strings.LastIndex(fn, "/"); i >= 0 {
		fn = fn[i+1:]
	}
	fn = strings.NewReplacer("(*", "", ")", "", "[...]", "").Replace(fn)
	return fn
}

// Guard runs f and converts a panic of the calling goroutine into a PanicInfo.
func Guard(f func()) (pi *PanicInfo) {
	defer func() {
		if v := recover(); v != nil {
			pi = describePanic(v)
		}
	}()
	f()
	return nil
}

func describePanic(v interface{}) *PanicInfo {
	pi := &PanicInfo{Value: fmt.Sprint(v)}
	if len(pi.Value) > 300 {
		pi.Value = pi.Value[:300]
	}
	pcs := make([]uintptr, 96)
	n := runtime.Callers(2, pcs)
	frames := runtime.CallersFrames(pcs[:n])
	seenPanic := false
	var firstLib string
	for {
		fr, more := frames.Next()
		fn := fr.Function
		if !seenPanic {
			if fn == "runtime.gopanic" {
				seenPanic = true
			}
			if !more {
				break
			}
			continue
		}
		if len(pi.Stack) < 24 {
			pi.Stack = append(pi.Stack, fmt.Sprintf("%s:%d", fn, fr.Line))
		}
		switch {
		case strings.HasPrefix(fn, "runtime.") || strings.HasPrefix(fn, "reflect.") || fn == "":
		case strings.HasPrefix(fn, "verif/harness/"):
			if pi.Site == "" {
				pi.Harness = true
				if firstLib != "" {
					pi.Site = "HARNESS>" + firstLib
				} else {
					pi.Site = "HARNESS:" + fn
				}
			}
		case strings.HasPrefix(fn, repoMod):
			if pi.Site == "" {
				pi.Site = ShortFunc(fn)
			}
		default:
			if firstLib == "" {
				firstLib = fn
			}
		}
		if !more {
			break
		}
	}
	if pi.Site == "" {
		pi.Site = "unknown"
		if firstLib != "" {
			pi.Site = firstLib
		}
	}
	return pi
}

// Settle waits (bounded) until the number of goroutines has stopped changing, so that
// background work started by one case (and a crash it may cause) falls inside that case.
func Settle() {
	last := runtime.NumGoroutine()
	stable := 0
	for i := 0; i < 200 && stable < 3; i++ {
		runtime.Gosched()
		time.Sleep(300 * time.Microsecond)
		n := runtime.NumGoroutine()
		if n == last {
			stable++
		} else {
			stable = 0
			last = n
		}
	}
}
