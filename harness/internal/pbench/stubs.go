package pbench

import (
	"context"
	"errors"
	"io"
	"math/big"
	"sync"
	"time"

	"github.com/ethereum/go-ethereum/common"
	"github.com/ethereum/go-ethereum/core/types"
	"github.com/gauss-project/aurorafs/pkg/aurora"
	"github.com/gauss-project/aurorafs/pkg/boson"
	"github.com/gauss-project/aurorafs/pkg/chunkinfo"
	"github.com/gauss-project/aurorafs/pkg/logging"
	"github.com/gauss-project/aurorafs/pkg/p2p"
	p2pmock "github.com/gauss-project/aurorafs/pkg/p2p/mock"
	"github.com/gauss-project/aurorafs/pkg/p2p/protobuf"
	"github.com/gauss-project/aurorafs/pkg/resolver"
	"github.com/gauss-project/aurorafs/pkg/retrieval/aco"
	"github.com/gauss-project/aurorafs/pkg/routetab"
	routepb "github.com/gauss-project/aurorafs/pkg/routetab/pb"
	"github.com/gauss-project/aurorafs/pkg/rpc"
	"github.com/gauss-project/aurorafs/pkg/settlement/chain"
	statestore "github.com/gauss-project/aurorafs/pkg/statestore/leveldb"
	"github.com/gauss-project/aurorafs/pkg/storage"
	"github.com/sirupsen/logrus"
)

// Log is a logger that formats everything (so format-time faults are exercised) and
// discards it.
func Log() logging.Logger { return logging.New(io.Discard, logrus.TraceLevel) }

// StateStore is the state store given to services: the map-backed MemState. (The repo's
// mock state store deadlocks on delete-inside-iterate; LevelStateStore is the real one.)
func StateStore() storage.StateStorer { return NewMemState() }

// LevelStateStore is a real in-memory leveldb state store.
func LevelStateStore() storage.StateStorer {
	s, err := statestore.NewInMemoryStateStore(Log())
	if err != nil {
		panic("pbench: state store: " + err.Error())
	}
	return s
}

// ---------------------------------------------------------------------------------------

// PutRec is one chunk handed to Store.Put.
type PutRec struct {
	Mode storage.ModePut
	Addr []byte
	Data []byte
}

// Store is a storage.Storer over a map that copies on Put and records every Put.
type Store struct {
	mu     sync.Mutex
	chunks map[string][]byte
	puts   []PutRec
	parent *Store // read-only fallback (shared, immutable content)
}

func NewStore() *Store { return &Store{chunks: map[string][]byte{}} }

// NewStoreOver returns an empty store that reads through to parent (which must not be
// written any more): a cheap way to give every case a node that already holds a file.
func NewStoreOver(parent *Store) *Store { return &Store{chunks: map[string][]byte{}, parent: parent} }

func (s *Store) lookup(k string) ([]byte, bool) {
	if d, ok := s.chunks[k]; ok {
		return d, true
	}
	if s.parent != nil {
		s.parent.mu.Lock()
		d, ok := s.parent.chunks[k]
		s.parent.mu.Unlock()
		return d, ok
	}
	return nil, false
}

func (s *Store) Get(_ context.Context, _ storage.ModeGet, addr boson.Address) (boson.Chunk, error) {
	s.mu.Lock()
	defer s.mu.Unlock()
	d, ok := s.lookup(addr.ByteString())
	if !ok {
		return nil, storage.ErrNotFound
	}
	return boson.NewChunk(addr, append([]byte(nil), d...)), nil
}

func (s *Store) Put(_ context.Context, mode storage.ModePut, chs ...boson.Chunk) ([]bool, error) {
	s.mu.Lock()
	defer s.mu.Unlock()
	ex := make([]bool, len(chs))
	for i, c := range chs {
		k := c.Address().ByteString()
		_, ex[i] = s.lookup(k)
		d := append([]byte(nil), c.Data()...)
		s.puts = append(s.puts, PutRec{Mode: mode, Addr: append([]byte(nil), c.Address().Bytes()...), Data: d})
		if !ex[i] {
			s.chunks[k] = d
		}
	}
	return ex, nil
}

func (s *Store) GetMulti(ctx context.Context, m storage.ModeGet, addrs ...boson.Address) ([]boson.Chunk, error) {
	out := make([]boson.Chunk, 0, len(addrs))
	for _, a := range addrs {
		c, err := s.Get(ctx, m, a)
		if err != nil {
			return nil, err
		}
		out = append(out, c)
	}
	return out, nil
}

func (s *Store) Has(_ context.Context, _ storage.ModeHas, addr boson.Address) (bool, error) {
	s.mu.Lock()
	defer s.mu.Unlock()
	_, ok := s.lookup(addr.ByteString())
	return ok, nil
}

func (s *Store) HasMulti(ctx context.Context, m storage.ModeHas, addrs ...boson.Address) ([]bool, error) {
	out := make([]bool, len(addrs))
	for i, a := range addrs {
		out[i], _ = s.Has(ctx, m, a)
	}
	return out, nil
}

func (s *Store) Set(context.Context, storage.ModeSet, ...boson.Address) error { return nil }
func (s *Store) Close() error                                                 { return nil }

// Puts returns the recorded Put calls.
func (s *Store) Puts() []PutRec {
	s.mu.Lock()
	defer s.mu.Unlock()
	return append([]PutRec(nil), s.puts...)
}

// Seed stores a chunk without recording it (data is kept by reference: callers do not
// modify it afterwards; Get hands out copies).
func (s *Store) Seed(addr, data []byte) {
	s.mu.Lock()
	s.chunks[string(addr)] = data
	s.mu.Unlock()
}

var _ storage.Storer = (*Store)(nil)

// ---------------------------------------------------------------------------------------

// Route is a stub routetab.RouteTab.
type Route struct {
	ConnectErr error
	Neighbor   bool
	Neighbors  []boson.Address // GetTargetNeighbor result
}

func (r *Route) GetRoute(context.Context, boson.Address) ([]*routetab.Path, error) {
	return nil, routetab.ErrNotFound
}
func (r *Route) FindRoute(context.Context, boson.Address, ...time.Duration) ([]*routetab.Path, error) {
	return nil, errors.New("pbench: no route")
}
func (r *Route) DelRoute(context.Context, boson.Address) error { return nil }
func (r *Route) Connect(context.Context, boson.Address) error  { return r.ConnectErr }
func (r *Route) GetTargetNeighbor(context.Context, boson.Address, int) ([]boson.Address, error) {
	if len(r.Neighbors) == 0 {
		return nil, errors.New("pbench: neighbor not found")
	}
	return r.Neighbors, nil
}
func (r *Route) IsNeighbor(boson.Address) bool { return r.Neighbor }
func (r *Route) FindUnderlay(context.Context, boson.Address, ...time.Duration) (*aurora.Address, error) {
	return nil, errors.New("pbench: no underlay")
}

var _ routetab.RouteTab = (*Route)(nil)

// Accounting is a stub accounting.Interface that allows everything.
type Accounting struct{}

func (Accounting) Reserve(boson.Address, uint64) error                 { return nil }
func (Accounting) Credit(context.Context, boson.Address, uint64) error { return nil }
func (Accounting) Debit(boson.Address, uint64) error                   { return nil }

// ChunkInfo is a stub chunkinfo.Interface for services that only report to it.
type ChunkInfo struct {
	Routes []aco.Route
}

func (c *ChunkInfo) FindChunkInfo(context.Context, []byte, boson.Address, []boson.Address) bool {
	return true
}
func (c *ChunkInfo) GetChunkInfo(boson.Address, boson.Address) []aco.Route { return c.Routes }
func (c *ChunkInfo) GetChunkInfoDiscoverOverlays(boson.Address) []aurora.ChunkInfoOverlay {
	return nil
}
func (c *ChunkInfo) GetChunkInfoServerOverlays(boson.Address) []aurora.ChunkInfoOverlay { return nil }
func (c *ChunkInfo) CancelFindChunkInfo(boson.Address)                                  {}
func (c *ChunkInfo) OnChunkTransferred(boson.Address, boson.Address, boson.Address, boson.Address) error {
	return nil
}
func (c *ChunkInfo) Init(context.Context, []byte, boson.Address) bool         { return true }
func (c *ChunkInfo) GetChunkPyramid(boson.Address) []*chunkinfo.PyramidCidNum { return nil }
func (c *ChunkInfo) IsDiscover(boson.Address) bool                            { return false }
func (c *ChunkInfo) GetFileList(boson.Address) ([]map[string]interface{}, []boson.Address) {
	return nil, nil
}
func (c *ChunkInfo) DelFile(boson.Address, func() error) error { return nil }
func (c *ChunkInfo) DelDiscover(boson.Address)                 {}
func (c *ChunkInfo) OnChunkRetrieved(boson.Address, boson.Address, boson.Address) error {
	return nil
}
func (c *ChunkInfo) GetChunkInfoSource(boson.Address) aurora.ChunkInfoSourceApi {
	return aurora.ChunkInfoSourceApi{}
}
func (c *ChunkInfo) ManifestView(context.Context, string, string, int) (*chunkinfo.ManifestNode, error) {
	return nil, errors.New("pbench: no manifest")
}
func (c *ChunkInfo) GetManifest(string, string, int) *chunkinfo.ManifestNode { return nil }

var _ chunkinfo.Interface = (*ChunkInfo)(nil)

// Chain is a stub chain.Resolver.
type Chain struct {
	Nodes []boson.Address
}

func (c *Chain) GetCid(string) []byte                                                            { return nil }
func (c *Chain) GetNodesFromCid([]byte) []boson.Address                                          { return c.Nodes }
func (c *Chain) GetSourceNodes(string) []boson.Address                                           { return nil }
func (c *Chain) OnStoreMatched(boson.Address, uint64, uint64, boson.Address)                     {}
func (c *Chain) DataStoreFinished(boson.Address, uint64, uint64, []byte, chan chain.ChainResult) {}
func (c *Chain) RegisterCidAndNode(context.Context, boson.Address, boson.Address) (common.Hash, error) {
	return common.Hash{}, nil
}
func (c *Chain) RemoveCidAndNode(context.Context, boson.Address, boson.Address) (common.Hash, error) {
	return common.Hash{}, nil
}
func (c *Chain) GetRegisterState(context.Context, boson.Address, boson.Address) (bool, error) {
	return false, nil
}
func (c *Chain) WaitForReceipt(context.Context, boson.Address, common.Hash) (*types.Receipt, error) {
	return nil, errors.New("pbench: no chain")
}
func (c *Chain) API() rpc.API { return rpc.API{} }

var _ chain.Resolver = (*Chain)(nil)

// ChainTraffic is a stub chain.Traffic: every balance is Balance, nothing is on chain.
type ChainTraffic struct{ Balance int64 }

func (c ChainTraffic) TransferredAddress(common.Address) ([]common.Address, error) { return nil, nil }
func (c ChainTraffic) RetrievedAddress(common.Address) ([]common.Address, error)   { return nil, nil }
func (c ChainTraffic) BalanceOf(common.Address) (*big.Int, error) {
	return big.NewInt(c.Balance), nil
}
func (c ChainTraffic) RetrievedTotal(common.Address) (*big.Int, error)   { return big.NewInt(0), nil }
func (c ChainTraffic) TransferredTotal(common.Address) (*big.Int, error) { return big.NewInt(0), nil }
func (c ChainTraffic) TransAmount(common.Address, common.Address) (*big.Int, error) {
	return big.NewInt(0), nil
}
func (c ChainTraffic) CashChequeBeneficiary(context.Context, boson.Address, common.Address, common.Address, *big.Int, []byte) (*types.Transaction, error) {
	return nil, errors.New("pbench: no chain")
}

var _ chain.Traffic = ChainTraffic{}

// Resolver is a stub resolver.Interface.
type Resolver struct{}

func (Resolver) Resolve(string) (resolver.Address, error) {
	return boson.ZeroAddress, errors.New("pbench: no resolver")
}
func (Resolver) Close() error { return nil }

// Pinger is a stub pingpong.Interface.
type Pinger struct{}

func (Pinger) Ping(context.Context, boson.Address, ...string) (time.Duration, error) {
	return time.Millisecond, nil
}

// Discovery is a stub discovery.Driver (hive2 flavour: kademlia does not gossip).
type Discovery struct{}

func (Discovery) BroadcastPeers(context.Context, boson.Address, ...boson.Address) error { return nil }
func (Discovery) DoFindNode(context.Context, boson.Address, boson.Address, []int32, int32) (chan boson.Address, error) {
	return nil, errors.New("pbench: no discovery")
}
func (Discovery) IsStart() bool                       { return false }
func (Discovery) IsHive2() bool                       { return true }
func (Discovery) NotifyDiscoverWork(...boson.Address) {}

// P2P is a stub p2p.Service. CallHandler does what the libp2p host does for the relay
// stream as far as the route service can tell: it reads the first relay request from
// the stream and reports it with forward=true; the rest of the stream is pumped into the
// reader channel. CallHandlerWithConnChain records the call.
type P2P struct {
	*p2pmock.Service
	mu        sync.Mutex
	ConnChain []string
}

func NewP2P() *P2P { return &P2P{Service: p2pmock.New()} }

func (p *P2P) CallHandler(ctx context.Context, last p2p.Peer, stream p2p.Stream) (*routepb.RouteRelayReq, *p2p.WriterChan, *p2p.ReaderChan, bool, error) {
	r := protobuf.NewReader(stream)
	req := &routepb.RouteRelayReq{}
	if err := r.ReadMsgWithContext(ctx, req); err != nil {
		return nil, nil, nil, false, err
	}
	w := &p2p.WriterChan{W: make(chan []byte, 1), Err: make(chan error, 1)}
	rc := &p2p.ReaderChan{R: make(chan []byte, 1), Err: make(chan error, 1)}
	go func() {
		for {
			m := &routepb.RouteRelayReq{}
			if err := r.ReadMsg(m); err != nil {
				rc.Err <- err
				return
			}
		}
	}()
	go func() {
		for {
			select {
			case <-w.W:
				w.Err <- nil
			case <-ctx.Done():
				return
			}
		}
	}()
	return req, w, rc, true, nil
}

func (p *P2P) CallHandlerWithConnChain(_ context.Context, _, src p2p.Peer, _ p2p.Stream, protocolName, protocolVersion, streamName string) error {
	p.mu.Lock()
	p.ConnChain = append(p.ConnChain, protocolName+"/"+protocolVersion+"/"+streamName)
	p.mu.Unlock()
	return nil
}

var _ p2p.Service = (*P2P)(nil)
