package pbench

import (
	"encoding"
	"encoding/json"
	"sort"
	"strings"
	"sync"

	"github.com/gauss-project/aurorafs/pkg/shed/driver"
	"github.com/gauss-project/aurorafs/pkg/storage"
)

// MemState is a map-backed storage.StateStorer with the encoding rules of the real
// leveldb state store (BinaryMarshaler, else JSON), ordered prefix iteration over a
// snapshot (so deleting inside Iterate is fine, as with leveldb). It exists because one
// in-memory leveldb per case costs 4 MiB of cleared memory; the state store is a
// collaborator here, not the code under test.
type MemState struct {
	mu sync.RWMutex
	m  map[string][]byte
}

func NewMemState() *MemState { return &MemState{m: map[string][]byte{}} }

func (s *MemState) Get(key string, i interface{}) error {
	s.mu.RLock()
	data, ok := s.m[key]
	s.mu.RUnlock()
	if !ok {
		return storage.ErrNotFound
	}
	if u, ok := i.(encoding.BinaryUnmarshaler); ok {
		return u.UnmarshalBinary(data)
	}
	return json.Unmarshal(data, i)
}

func (s *MemState) Put(key string, i interface{}) error {
	var b []byte
	var err error
	if m, ok := i.(encoding.BinaryMarshaler); ok {
		if b, err = m.MarshalBinary(); err != nil {
			return err
		}
	} else if b, err = json.Marshal(i); err != nil {
		return err
	}
	s.mu.Lock()
	s.m[key] = b
	s.mu.Unlock()
	return nil
}

func (s *MemState) Delete(key string) error {
	s.mu.Lock()
	delete(s.m, key)
	s.mu.Unlock()
	return nil
}

func (s *MemState) Iterate(prefix string, f storage.StateIterFunc) error {
	s.mu.RLock()
	keys := make([]string, 0, len(s.m))
	for k := range s.m {
		if strings.HasPrefix(k, prefix) {
			keys = append(keys, k)
		}
	}
	sort.Strings(keys)
	vals := make([][]byte, len(keys))
	for i, k := range keys {
		vals[i] = s.m[k]
	}
	s.mu.RUnlock()
	for i, k := range keys {
		stop, err := f([]byte(k), vals[i])
		if err != nil {
			return err
		}
		if stop {
			return nil
		}
	}
	return nil
}

func (s *MemState) DB() driver.BatchDB { return nil }
func (s *MemState) Close() error       { return nil }

var _ storage.StateStorer = (*MemState)(nil)
