package pbench

import (
	"bytes"
	"context"
	"sort"

	"github.com/gauss-project/aurorafs/pkg/boson"
	"github.com/gauss-project/aurorafs/pkg/file/loadsave"
	"github.com/gauss-project/aurorafs/pkg/file/pipeline"
	"github.com/gauss-project/aurorafs/pkg/file/pipeline/builder"
	"github.com/gauss-project/aurorafs/pkg/manifest"
	"github.com/gauss-project/aurorafs/pkg/storage"
	"github.com/gauss-project/aurorafs/pkg/traversal"
)

// Upload splits data into store with the real pipeline (honest publisher) and returns
// the reference.
func Upload(store storage.Storer, data []byte) (boson.Address, error) {
	ctx := context.Background()
	p := builder.NewPipelineBuilder(ctx, store, storage.ModePutUpload, false)
	return builder.FeedPipeline(ctx, p, bytes.NewReader(data))
}

// UploadDir stores the files and a directory manifest over them; returns the manifest
// reference and the file references.
func UploadDir(store storage.Storer, files map[string][]byte, index string) (boson.Address, map[string]boson.Address, error) {
	ctx := context.Background()
	ls := loadsave.New(store, func() pipeline.Interface {
		return builder.NewPipelineBuilder(ctx, store, storage.ModePutUpload, false)
	})
	m, err := manifest.NewDefaultManifest(ls, false)
	if err != nil {
		return boson.ZeroAddress, nil, err
	}
	names := make([]string, 0, len(files))
	for n := range files {
		names = append(names, n)
	}
	sort.Strings(names)
	refs := map[string]boson.Address{}
	for _, n := range names {
		ref, err := Upload(store, files[n])
		if err != nil {
			return boson.ZeroAddress, nil, err
		}
		refs[n] = ref
		md := map[string]string{manifest.EntryMetadataContentTypeKey: "text/plain", manifest.EntryMetadataFilenameKey: n}
		if err := m.Add(ctx, n, manifest.NewEntry(ref, md)); err != nil {
			return boson.ZeroAddress, nil, err
		}
	}
	rootMD := map[string]string{manifest.EntryMetadataDirnameKey: "dir"}
	if index != "" {
		rootMD[manifest.WebsiteIndexDocumentSuffixKey] = index
	}
	if err := m.Add(ctx, manifest.RootPath, manifest.NewEntry(boson.ZeroAddress, rootMD)); err != nil {
		return boson.ZeroAddress, nil, err
	}
	root, err := m.Store(ctx)
	return root, refs, err
}

// Pyramid returns the honest pyramid (hex address -> span||data of every non-data chunk
// plus the root) of a reference present in store, as the real node would serve it.
func Pyramid(store storage.Storer, root boson.Address) (map[string][]byte, error) {
	return traversal.New(store).GetPyramid(context.Background(), root)
}

// SortedKeys returns the keys of a pyramid in a fixed order.
func SortedKeys(m map[string][]byte) []string {
	ks := make([]string, 0, len(m))
	for k := range m {
		ks = append(ks, k)
	}
	sort.Strings(ks)
	return ks
}
