#!/bin/bash
# Offline setup: warm the Go build cache for every property package (plain and -race).
set -u
cd "$(dirname "$0")/harness"
export GOFLAGS=-mod=mod GOPROXY=off GOSUMDB=off GOTOOLCHAIN=local
mkdir -p bin
cp -n /repo/go.sum go.sum 2>/dev/null || true
fail=0
ids=$(python3 -c "
import json,os
claimed=json.load(open('../checks.json')).get('claimed',[])
cs=[json.load(open('../checks.d/'+f)) for f in sorted(os.listdir('../checks.d')) if f.endswith('.json') and f[:-5] in claimed]
print(' '.join((x['id'].lower()+(':race' if x.get('race') else '')) for x in cs))")
build() {
  id=${1%%:*}; race=""; out="bin/$id.test"
  if [[ "$1" == *:race ]]; then race="-race"; out="bin/$id.race.test"; fi
  go test -c -vet=off -tags verif -ldflags=-checklinkname=0 $race -o "$out" "./props/$id" || return 1
}
# two at a time: the go tool itself parallelises compilation
for x in $ids; do
  build "$x" || { echo "setup: build failed for $x"; fail=1; }
done
exit $fail
