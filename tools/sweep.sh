#!/bin/bash
# tools/sweep.sh <seed> [tier]: runs every claimed check once with VERIF_SEED=<seed>, prints one line per check
cd "$(dirname "$0")/.."
seed=${1:-1}; tier=${2:-quick}
for id in $(python3 -c "import json;print(' '.join(json.load(open('checks.json'))['claimed']))"); do
  out=$(VERIF_SEED=$seed ./check $id $tier 2>&1)
  rc=$?
  echo "rc=$rc $(echo "$out" | grep '^SUMMARY' | tail -n 1)"
  echo "$out" | grep '^VIOLATION' | cut -c1-400
done
