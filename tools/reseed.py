#!/usr/bin/env python3
"""Re-evaluates kept seeded changes in place against /repo's current HEAD.

  tools/reseed.py [--jobs N] <seed-dir-name>... | all

Arguments of the original evaluation (demo package, build tags, race, other checks) are
taken from each seed's meta.json.
"""
import json, os, re, subprocess, sys
from concurrent.futures import ThreadPoolExecutor

ROOT = os.path.dirname(os.path.dirname(os.path.abspath(__file__)))


def one(name):
    d = os.path.join(ROOT, "seeded", name)
    m = json.load(open(os.path.join(d, "meta.json")))
    prop = m["property"]
    cmd = [sys.executable, os.path.join(ROOT, "tools", "seedeval.py"), d, prop]
    if m.get("demo_package"):
        cmd += ["--pkg", m["demo_package"]]
    t = re.search(r"-tags '?([a-z0-9, ]+)'?", m["steps"]["demo_without_patch"]["cmd"])
    if t:
        cmd += ["--tags", ",".join(t.group(1).replace(",", " ").split())]
    also = [k for k in m.get("checks", {}) if k != prop]
    if also:
        cmd += ["--also", ",".join(also)]
    if "-race " in m["steps"]["demo_without_patch"]["cmd"]:
        cmd += ["--race", "1"]
    p = subprocess.run(cmd, stdout=subprocess.PIPE, stderr=subprocess.STDOUT, text=True)
    first = [l for l in p.stdout.splitlines() if "confirmed=" in l]
    return name, (first[0] if first else p.stdout[-400:])


def main():
    args = sys.argv[1:]
    jobs = 2
    if args and args[0] == "--jobs":
        jobs = int(args[1])
        args = args[2:]
    if args == ["all"]:
        args = sorted(d for d in os.listdir(os.path.join(ROOT, "seeded")) if os.path.exists(os.path.join(ROOT, "seeded", d, "meta.json")))
    with ThreadPoolExecutor(jobs) as ex:
        for name, line in ex.map(one, args):
            print(line, flush=True)


main()
