#!/usr/bin/env python3
"""Generates MANIFEST.json from checks.json (single source of per-check settings)."""
import json, os, subprocess
ROOT = os.path.dirname(os.path.dirname(os.path.abspath(__file__)))
cfg = json.load(open(os.path.join(ROOT, "checks.json")))
cfg["checks"] = [json.load(open(os.path.join(ROOT, "checks.d", f))) for f in sorted(os.listdir(os.path.join(ROOT, "checks.d"))) if f.endswith(".json") and f[:-5] in cfg.get("claimed", [])]
props = [json.loads(l) for l in open(os.path.join(ROOT, "properties.jsonl"))]
claimed = {c["id"] for c in cfg["checks"]}
hooks_commits = []
try:
    out = subprocess.run(["git", "-C", "/repo", "log", "--format=%h %s"], capture_output=True, text=True).stdout
    hooks_commits = [l.split()[0] for l in out.splitlines() if l.split(" ", 1)[1].startswith("verif hooks:")]
except Exception:
    pass
m = {
    "version": 1,
    "setup_cmd": "./setup.sh",
    "hooks": {
        "guard": "verif",
        "enable": "go build tag: every check builds its test binary from /repo's working tree with `-tags verif` (harness/go.mod replaces github.com/gauss-project/aurorafs => /repo)",
        "baseline_off_cmd": "cd /repo && GOFLAGS=-mod=mod GOPROXY=off GOSUMDB=off GOTOOLCHAIN=local go test -json -vet=off -count=1 -timeout 25m ./...",
        "source_commits": list(reversed(hooks_commits)),
        "add_only": True,
    },
    "engines": [
        {"name": "vcheck", "path": "check", "serves_properties": sorted(claimed),
         "kind_free_text": "python orchestrator: builds harness/props/<id> (go test -c -tags verif [-race]) against /repo, runs child processes with crash attribution and restart, aggregates JSONL observations, known-finding matching, evidence writer"},
        {"name": "harness", "path": "harness", "serves_properties": sorted(claimed),
         "kind_free_text": "Go module: workload generators, reference models (internal/spec), monitors (props/cNN), stubs and mini-node wiring"},
    ],
    "checks": [],
    "notes": "Runtime monitoring only. Exit 2 from ./check means inconclusive (build failure, watchdog, monitor saw too little); it prints no VIOLATION line. known_findings.json lists genuine defects (known / fixed). See DESIGN.md.",
    "not_applicable": [],
}
for c in cfg["checks"]:
    m["checks"].append({
        "property_id": c["id"],
        "quick_cmd": "./check %s quick" % c["id"],
        "thorough_cmd": "./check %s thorough" % c["id"],
        "evidence_file": "evidence/%s.json" % c["id"],
        "replay_cmd_template": "./check %s --replay {path}" % c["id"],
        "engine": "vcheck",
        "level_claimed": {"category": c.get("level", cfg["defaults"].get("level", "exploration")),
                          "text": c["level_text"], "design_ref": c.get("design_ref", "")},
        "level_note": c["level_note"],
        "technique": c["technique"],
    })
na = cfg.get("not_applicable", {})
for p in props:
    if p["id"] not in claimed:
        m["not_applicable"].append({"property_id": p["id"], "reason": na.get(p["id"], "check not built yet in this round (no claim made); see DESIGN.md")})
json.dump(m, open(os.path.join(ROOT, "MANIFEST.json"), "w"), indent=1)
print("claimed", len(claimed), "not_applicable", len(m["not_applicable"]))
