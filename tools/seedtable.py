#!/usr/bin/env python3
"""Prints the markdown table of seeded changes from seeded/*/meta.json (+ the first line of notes.md)."""
import json, os, re
ROOT = os.path.dirname(os.path.dirname(os.path.abspath(__file__)))
rows = []
for d in sorted(os.listdir(os.path.join(ROOT, "seeded"))):
    mp = os.path.join(ROOT, "seeded", d, "meta.json")
    if not os.path.exists(mp):
        continue
    m = json.load(open(mp))
    title = ""
    np = os.path.join(ROOT, "seeded", d, "notes.md")
    if os.path.exists(np):
        for l in open(np):
            if l.strip():
                title = re.sub(r"^#+\s*", "", l.strip())[:150]
                break
    det = []
    for cid, v in m.get("checks", {}).items():
        keys = sorted(set(re.findall(r"key=(\S+)", " ".join(v["lines"]))))
        det.append("%s: %s" % (cid, ("**caught** (%s)" % ", ".join(k[:60] for k in keys[:2])) if v["detected"] else "not caught"))
    rows.append("| %s | %s | %s | %s | %s |" % (d, m["property"], "yes" if m.get("confirmed") else "no", title.replace("|", "/"), "; ".join(det)))
import sys
table = "| seed | property | confirmed | change | checks (quick tier, seed 1) |\n|---|---|---|---|---|\n" + "\n".join(rows)
if len(sys.argv) > 2 and sys.argv[1] == "--into":
    # replace the block between the markers in the given markdown file
    t = open(sys.argv[2]).read()
    b, e = "<!-- seedtable:begin -->", "<!-- seedtable:end -->"
    t = t[:t.index(b) + len(b)] + "\n" + table + "\n" + t[t.index(e):]
    open(sys.argv[2], "w").write(t)
else:
    print(table)
