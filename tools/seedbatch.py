#!/usr/bin/env python3
"""tools/seedbatch.py <agent-dir>...: evaluates every OUT/<ID>-<n> of the given seed agents with
seedeval.py; demo package / tags / -race are read from the `go test` line in the demonstration's header
comment (or notes.md)."""
import os, re, subprocess, sys
ROOT = os.path.dirname(os.path.dirname(os.path.abspath(__file__)))
for agent in sys.argv[1:]:
    out = os.path.join(agent, "OUT")
    for name in sorted(os.listdir(out)):
        d = os.path.join(out, name)
        m = re.match(r"^(C\d\d)-\d+$", name)
        if not m or not os.path.exists(os.path.join(d, "patch.diff")):
            continue
        txt = ""
        for f in sorted(os.listdir(d)):
            if f.endswith(".go"):
                txt += "".join(open(os.path.join(d, f)).readlines()[:40])
        txt += open(os.path.join(d, "notes.md")).read() if os.path.exists(os.path.join(d, "notes.md")) else ""
        line = next((l for l in txt.splitlines() if "go test" in l and "./pkg/" in l), "")
        cmd = [sys.executable, os.path.join(ROOT, "tools", "seedeval.py"), d, m.group(1)]
        p = re.search(r"\./(pkg/[A-Za-z0-9_/.-]+?)/?(\s|$|`)", line)
        if p:
            cmd += ["--pkg", p.group(1).rstrip("/.")]
        t = re.search(r"-tags[ =]['\"]?([a-z0-9, ]+?)['\"]?(\s-|\s\./|$)", line)
        if t:
            cmd += ["--tags", ",".join(t.group(1).replace(",", " ").split())]
        if " -race" in line:
            cmd += ["--race", "1"]
        print("##", " ".join(cmd[2:]), flush=True)
        r = subprocess.run(cmd, stdout=subprocess.PIPE, stderr=subprocess.STDOUT, text=True)
        print("\n".join(l[:300] for l in r.stdout.splitlines()[-6:]), flush=True)
