#!/usr/bin/env python3
"""Confirms a seeded change and runs the property's check against it.

  tools/seedeval.py <deliverable-dir> <PROP> [--pkg pkg/x] [--tags leveldb] [--also C07,C01]

<deliverable-dir> holds patch.diff, a demonstration (demo_test.go or *_test.go) and notes.md, as
written by an independent sub-agent. Steps, all in the scratch worktree /tmp/seedeval-wt
(never /repo):
  1. reset the worktree to /repo's HEAD; copy the demonstration; it must PASS;
  2. apply patch.diff; `go build` of the touched packages must succeed; the existing tests of
     the touched packages must give the same verdict lines as without the patch;
  3. the demonstration must FAIL;
  4. run `./check <PROP> quick` (and --also ids) with VERIF_REPO pointing at the worktree;
  5. write /verif/seeded/<PROP>-<name>/ {patch.diff, demo, notes.md, meta.json}.
"""
import json, os, re, shutil, subprocess, sys, time

WT = "/tmp/seedeval-wt-%d" % os.getpid()
ROOT = os.path.dirname(os.path.dirname(os.path.abspath(__file__)))
ENV = dict(os.environ, GOFLAGS="-mod=mod", GOPROXY="off", GOSUMDB="off", GOTOOLCHAIN="local")


def sh(cmd, cwd=WT, timeout=1500, env=ENV):
    p = subprocess.run(cmd, shell=True, cwd=cwd, env=env, stdout=subprocess.PIPE, stderr=subprocess.STDOUT, text=True, timeout=timeout)
    return p.returncode, p.stdout


FLAKY = ("TestBlocksAfterFlagTimeout", "TestOracle", "TestTraversalBytes", "TestNeighborhoodDepth", "TestCopyBuffer", "TestKademlia_SubscribePeersChange", "TestService_FindRouteLoopBack")
FLAKY_PKGS = ("pkg/blocker", "pkg/traversal", "pkg/topology/kademlia", "aurorafs/pkg/file ", "pkg/routetab")


def verdicts(out):
    # tests known to be timing-flaky at HEAD under load (documented by several seed agents) are ignored,
    # together with the package-level line of their packages
    out = "\n".join(l for l in out.splitlines() if not any(f in l for f in FLAKY) and not (re.match(r"^(ok|FAIL)\s", l.strip()) and any(p in l + " " for p in FLAKY_PKGS)))
    return _verdicts(out)


def _verdicts(out):
    out = re.sub(r"\(?\d+\.\d+s\)?", "", out)  # durations differ from run to run
    return sorted(set(re.sub(r"\s+", " ", l.strip()) for l in out.splitlines() if re.match(r"^(ok|FAIL|---|\?)\s", l.strip())))


def main():
    d = os.path.abspath(sys.argv[1])
    prop = sys.argv[2]
    args = sys.argv[3:]
    opt = {}
    while args:
        k = args.pop(0)
        opt[k] = args.pop(0)
    tags = opt.get("--tags", "")
    demos = [f for f in os.listdir(d) if f.endswith("_test.go") or f.endswith(".go")]
    demo = [f for f in demos if f.endswith("_test.go")]
    if not demo:
        sys.exit("no demonstration *_test.go in " + d)
    demo = demo[0]
    text = open(os.path.join(d, demo)).read()
    pkg = opt.get("--pkg")
    if not pkg:
        m = re.search(r"(pkg/[\w/]+)", text[:1500])
        if not m:
            sys.exit("cannot find the package directory of the demo; pass --pkg")
        pkg = m.group(1).rstrip("/")
    tests = re.findall(r"^func (Test\w+)\(", text, re.M)
    runpat = "^(" + "|".join(tests) + ")$"
    patch = os.path.join(d, "patch.diff")
    touched = sorted(set(os.path.dirname(m) for m in re.findall(r"^\+\+\+ b/(\S+)", open(patch).read(), re.M)))
    goflags = ("-race " if opt.get("--race") else "") + "-ldflags=-checklinkname=0" + (" -tags '" + tags.replace(",", " ") + "'" if tags else "")
    res = {"property": prop, "source_dir": d, "demo": demo, "demo_package": pkg, "touched_packages": touched, "steps": {}}

    head = subprocess.run(["git", "-C", "/repo", "rev-parse", "HEAD"], capture_output=True, text=True).stdout.strip()
    subprocess.run(["git", "-C", "/repo", "worktree", "add", "-q", "--detach", WT, head], check=True)
    res["repo_head"] = head[:10]
    os.makedirs(os.path.join(WT, pkg), exist_ok=True)
    shutil.copy(os.path.join(d, demo), os.path.join(WT, pkg, "zz_seed_" + demo))
    democmd = "go test -count=1 -vet=off %s -run '%s' ./%s/" % (goflags, runpat, pkg)
    rc0, out0 = sh(democmd, timeout=3000)
    res["steps"]["demo_without_patch"] = {"cmd": democmd, "rc": rc0, "tail": out0[-600:]}
    # existing tests before
    pk = " ".join("./%s/" % t for t in touched)
    testcmd = "go test -count=1 -vet=off %s %s" % (goflags, pk)
    os.remove(os.path.join(WT, pkg, "zz_seed_" + demo))
    # re-evaluation of a kept seed: the comparison of the existing tests was made when the seed
    # was first kept (same patch); SEEDEVAL_SKIP_EXISTING=1 reuses that verdict
    prev = None
    pm = os.path.join(d, "meta.json")
    if os.environ.get("SEEDEVAL_SKIP_EXISTING") and os.path.exists(pm):
        try:
            prev = json.load(open(pm))["steps"]["existing_tests"]
        except Exception:
            prev = None
        if prev is not None and not prev.get("same_verdicts"):
            prev = None
    rcb, outb = (0, "") if prev else sh(testcmd)
    rc, out = sh("git apply --whitespace=nowarn %s" % patch)
    res["steps"]["apply"] = {"rc": rc, "out": out[-300:]}
    if rc != 0:
        cleanup()
        finish(res, d, prop, False)
        return
    rcbuild, outbuild = sh("go build %s" % pk)
    res["steps"]["build_with_patch"] = {"rc": rcbuild, "tail": outbuild[-400:]}
    if prev:
        same = True
        res["steps"]["existing_tests"] = dict(prev, reused_from_earlier_evaluation=True)
    else:
        rca, outa = sh(testcmd)
        same = verdicts(outb) == verdicts(outa)
        res["steps"]["existing_tests"] = {"cmd": testcmd, "same_verdicts": same, "before": verdicts(outb)[:40], "after": verdicts(outa)[:40]}
    shutil.copy(os.path.join(d, demo), os.path.join(WT, pkg, "zz_seed_" + demo))
    rc1, out1 = sh(democmd, timeout=3000)
    res["steps"]["demo_with_patch"] = {"rc": rc1, "tail": out1[-800:]}
    os.remove(os.path.join(WT, pkg, "zz_seed_" + demo))
    confirmed = rc0 == 0 and rc1 != 0 and rcbuild == 0 and same
    res["confirmed"] = confirmed
    # run the checks against the patched worktree
    checks = [prop] + [x for x in opt.get("--also", "").split(",") if x]
    res["checks"] = {}
    env = dict(ENV, VERIF_REPO=WT)
    for cid in checks:
        t0 = time.time()
        rc, out = sh("./check %s quick" % cid, cwd=ROOT, env=env, timeout=3000)
        lines = [l[:400] for l in out.splitlines() if l.startswith(("VIOLATION", "SUMMARY", "INCONCLUSIVE"))]
        res["checks"][cid] = {"exit": rc, "detected": rc == 1, "lines": lines[:12], "wall_s": round(time.time() - t0)}
    cleanup()
    finish(res, d, prop, confirmed)


def cleanup():
    subprocess.run(["git", "-C", "/repo", "worktree", "remove", "--force", WT])
    for f in os.listdir(os.path.join(ROOT, "harness")):
        if f.startswith("go.alt.") and hashlib_tag() in f:
            os.remove(os.path.join(ROOT, "harness", f))


def hashlib_tag():
    import hashlib
    return hashlib.sha1(WT.encode()).hexdigest()[:8]


def finish(res, d, prop, confirmed):
    name = os.path.basename(d.rstrip("/"))
    agent = os.path.basename(os.path.dirname(os.path.dirname(d.rstrip("/"))))
    out = os.path.join(ROOT, "seeded", "%s_%s" % (name, agent))
    if os.path.dirname(os.path.abspath(d.rstrip("/"))) == os.path.join(ROOT, "seeded"):
        out = os.path.abspath(d.rstrip("/"))  # re-evaluation of a kept seed in place
    os.makedirs(out, exist_ok=True)
    for f in os.listdir(d):
        if os.path.abspath(d.rstrip("/")) == out:
            break
        if os.path.isfile(os.path.join(d, f)) and os.path.getsize(os.path.join(d, f)) < 400000:
            shutil.copy(os.path.join(d, f), os.path.join(out, f))
    json.dump(res, open(os.path.join(out, "meta.json"), "w"), indent=1)
    det = {k: v["detected"] for k, v in res.get("checks", {}).items()}
    print("%s confirmed=%s detected=%s" % (os.path.basename(out), confirmed, det))
    for k, v in res.get("checks", {}).items():
        for l in v["lines"][:3]:
            print("    ", l[:220])
    if not confirmed:
        st = res["steps"]
        print("     demo_without_patch rc=%s demo_with_patch rc=%s build rc=%s same_tests=%s" % (
            st.get("demo_without_patch", {}).get("rc"), st.get("demo_with_patch", {}).get("rc"),
            st.get("build_with_patch", {}).get("rc"), st.get("existing_tests", {}).get("same_verdicts")))


if __name__ == "__main__":
    main()
